------------------------------- MODULE Hashes -------------------------------
(***************************************************************************)
(* What the chain hash and the group hash of drand commit to (C17).        *)
(*                                                                         *)
(* Abstract hashes are injective tuples of exactly the fields the code     *)
(* feeds to the hash function (collision resistance of SHA-256 / BLAKE2b   *)
(* is trusted base):                                                       *)
(*   common/chain/info.go Info.Hash     : uint32(period s), genesis time,  *)
(*        public key, genesis seed, beacon id unless it is the default one *)
(*   common/key/group.go Group.Hash     : nodes sorted by index (each      *)
(*        hashed as index + key, node.go), threshold, genesis time,        *)
(*        transition time, hash of all coefficients of the distributed key *)
(*        (keys.go DistPublic.Hash), beacon id unless default              *)
(* Not fed to either hash (and not claimed by the statement): scheme name, *)
(* catch-up period, node addresses and signatures; the group hash also     *)
(* ignores period and genesis seed.                                        *)
(*                                                                         *)
(* A value is an abstract record; the Go harness concretises the labels    *)
(* with real points of each scheme and computes the real digests.          *)
(*  chain info : [period, genesis, pk, seed, id]                           *)
(*  group      : [nodes, thr, genesis, transition, dist, id, period, seed] *)
(*     nodes = listing order, sequence of <<index, key label>>             *)
(*     dist  = <<>> (no DKG yet) or <<first, rest>>: coefficient 1 is      *)
(*             point(first), coefficients 2..thr depend on (first, rest)   *)
(*     seed  = "none" (GetGenesisSeed falls back to the group hash) or a   *)
(*             label                                                       *)
(* One action per call of the real code: a hash computation after a        *)
(* single-field change, a permutation of the node listing, a membership    *)
(* change (resharing), a trip through an encoding path, a tampered decode. *)
(***************************************************************************)
EXTENDS Naturals, Sequences, FiniteSets, TLC

CONSTANTS Family,        \* "chain" | "group": which object this configuration explores
          Periods, Geneses, Firsts, Seeds, Ids,       \* field values (both families)
          NodeIdx, NodeKeys, MaxNodes, Transitions, Rests   \* group only

VARIABLES val,    \* the abstract value whose hash was computed last
          act,    \* the action that produced it (history; hidden by the VIEW)
          prev    \* the value before that action (history; hidden by the VIEW)

vars == <<val, act, prev>>

DefaultId == "default"
IdOrDefault(id) == IF id = "" \/ id = DefaultId THEN DefaultId ELSE id

Range(s) == {s[k] : k \in DOMAIN s}
MinimumT(n) == (n \div 2) + 1

-----------------------------------------------------------------------------
(* Abstract hashes                                                           *)

SeedTerm(s) == <<"S", s>>

ChainHash(i) == <<i.period, i.genesis, i.pk, i.seed, IdOrDefault(i.id)>>

\* the coefficients beyond the first exist only for thresholds above 1
DistTerm(g) == IF g.dist # <<>> /\ g.thr = 1 THEN <<g.dist[1]>> ELSE g.dist
GroupHash(g) == <<Range(g.nodes), g.thr, g.genesis, g.transition, DistTerm(g), IdOrDefault(g.id)>>

\* Group.GetGenesisSeed
\* (sequence families: once GetGenesisSeed has run on a seedless group the hash of THAT moment
\* is cached in g.GenesisSeed - seed = "frozen", frozen = the hashed fields of that moment)
SeedOf(g) == IF g.seed = "none" THEN <<"H", GroupHash(g)>>
             ELSE IF g.seed = "frozen" THEN <<"H", GroupHash(g.frozen)>>
             ELSE SeedTerm(g.seed)

\* chain.NewChainInfo(group); defined once a distributed key exists
HasChain(g) == g.dist # <<>>
ChainOfGroup(g) == [period |-> g.period, genesis |-> g.genesis, pk |-> g.dist[1], seed |-> SeedOf(g), id |-> g.id]

\* a standalone chain info with a labelled seed
ChainOfInfo(i) == [period |-> i.period, genesis |-> i.genesis, pk |-> i.pk, seed |-> SeedTerm(i.seed), id |-> i.id]

\* which fields of two hash tuples differ (for diagnosis / signatures)
ChainFieldNames == <<"period", "genesis", "pk", "seed", "id">>
GroupFieldNames == <<"nodes", "threshold", "genesis", "transition", "dist", "id">>
Diff(names, t1, t2) == {names[k] : k \in {j \in DOMAIN names : t1[j] # t2[j]}}

-----------------------------------------------------------------------------
(* Monitors (over observed values and digests only)                          *)

\* two computations: hashes equal IFF the parameters the hash identifies are equal
Mon_SameParamsSameHash(t1, d1, t2, d2) == t1 = t2 => d1 = d2      \* deterministic, path independent
Mon_DiffParamsDiffHash(t1, d1, t2, d2) == t1 # t2 => d1 # d2      \* commits to every listed field

\* decoding a chain info whose embedded hash does not match its fields is rejected, by
\* every decoder that receives an embedded hash: Info.UnmarshalJSON (chain_hash) and
\* InfoFromProto / InfoFromJSON (the packet's hash field)
\* (orig = the value whose hash is embedded, tampered = the fields actually carried)
Mon_TamperRejected(orig, tampered, accepted) ==
  accepted => ChainHash(ChainOfInfo(tampered)) = ChainHash(ChainOfInfo(orig))

\* a decode that succeeds yields a value whose Hash() is the hash the document declared
Mon_DecodedHashIsDeclared(accepted, declared, live) == accepted => live = declared

-----------------------------------------------------------------------------
(* Values                                                                    *)

WellFormedNodes(ns) ==
  /\ Len(ns) >= 1 /\ Len(ns) <= MaxNodes
  /\ \A a, b \in DOMAIN ns : a # b => ns[a][1] # ns[b][1] /\ ns[a][2] # ns[b][2]

ThrOK(g) == g.thr >= MinimumT(Len(g.nodes)) /\ g.thr <= Len(g.nodes)

InfoInit == [period |-> CHOOSE x \in Periods : TRUE, genesis |-> CHOOSE x \in Geneses : TRUE,
             pk |-> CHOOSE x \in Firsts : TRUE, seed |-> CHOOSE x \in Seeds : TRUE, id |-> ""]

GroupInit == [nodes |-> <<<<CHOOSE x \in NodeIdx : TRUE, CHOOSE x \in NodeKeys : TRUE>>>>, thr |-> 1,
              genesis |-> CHOOSE x \in Geneses : TRUE, transition |-> 0, dist |-> <<>>, id |-> "",
              period |-> CHOOSE x \in Periods : TRUE, seed |-> "none"]

IsChainFam == Family \in {"chain", "chainseq"}
Hash(v) == IF IsChainFam THEN ChainHash(ChainOfInfo(v)) ELSE GroupHash(v)

-----------------------------------------------------------------------------
(* Actions                                                                   *)

Set(field, x, v2) ==
  /\ v2 # val
  /\ val' = v2 /\ prev' = val
  /\ act' = [name |-> "set", field |-> field]

\* chain info
C_SetPeriod == \E x \in Periods : Set("period", x, [val EXCEPT !.period = x])
C_SetGenesis == \E x \in Geneses : Set("genesis", x, [val EXCEPT !.genesis = x])
C_SetPk == \E x \in Firsts : Set("pk", x, [val EXCEPT !.pk = x])
C_SetSeed == \E x \in Seeds : Set("seed", x, [val EXCEPT !.seed = x])
C_SetId == \E x \in Ids : Set("id", x, [val EXCEPT !.id = x])
C_Via == \E path \in {"json", "proto", "hexjson"} :
            val' = val /\ prev' = val /\ act' = [name |-> "via", path |-> path]
\* decode a served chain info after changing one field but not the embedded hash; with
\* strip the embedded hash is removed instead (it is optional in every encoding: packets of
\* peers that do not fill it must still decode)
C_Tamper == \E path \in {"json", "proto", "hexjson"}, strip \in BOOLEAN :
              \E f \in {"period", "genesis", "pk", "seed", "id"} :
                \E x \in (CASE f = "period" -> Periods [] f = "genesis" -> Geneses [] f = "pk" -> Firsts
                            [] f = "seed" -> Seeds [] OTHER -> Ids) :
                  /\ x # val[f]
                  /\ val' = val /\ prev' = val
                  /\ act' = [name |-> "tamper", path |-> path, field |-> f, nv |-> x, strip |-> strip]

ChainNext == C_SetPeriod \/ C_SetGenesis \/ C_SetPk \/ C_SetSeed \/ C_SetId \/ C_Via \/ C_Tamper

\* group
Perms(n) == {f \in [1..n -> 1..n] : \A a, b \in 1..n : a # b => f[a] # f[b]}
G_Permute == \E f \in Perms(Len(val.nodes)) :
               LET ns == [k \in 1..Len(val.nodes) |-> val.nodes[f[k]]] IN
               /\ ns # val.nodes
               /\ val' = [val EXCEPT !.nodes = ns] /\ prev' = val
               /\ act' = [name |-> "permute"]
G_SetNodeKey == \E k \in DOMAIN val.nodes, x \in NodeKeys :
                  LET ns == [val.nodes EXCEPT ![k] = <<val.nodes[k][1], x>>] IN
                  WellFormedNodes(ns) /\ Set("nodekey", x, [val EXCEPT !.nodes = ns])
G_SetNodeIndex == \E k \in DOMAIN val.nodes, x \in NodeIdx :
                    LET ns == [val.nodes EXCEPT ![k] = <<x, val.nodes[k][2]>>] IN
                    WellFormedNodes(ns) /\ Set("nodeindex", x, [val EXCEPT !.nodes = ns])
G_SetThr == \E x \in 1..MaxNodes :
              LET v2 == [val EXCEPT !.thr = x] IN ThrOK(v2) /\ Set("threshold", x, v2)
G_SetGenesis == \E x \in Geneses : Set("genesis", x, [val EXCEPT !.genesis = x])
G_SetTransition == \E x \in Transitions : Set("transition", x, [val EXCEPT !.transition = x])
G_SetDist == \E x \in {<<>>} \cup {<<a, b>> : a \in Firsts, b \in Rests} :
               LET v2 == [val EXCEPT !.dist = x] IN
               DistTerm(v2) # DistTerm(val) /\ Set("dist", x, v2)
G_SetId == \E x \in Ids : Set("id", x, [val EXCEPT !.id = x])
\* not fed to the group hash (they are to the chain hash of the group's chain info)
G_SetPeriod == \E x \in Periods : Set("period", x, [val EXCEPT !.period = x])
G_SetSeed == \E x \in Seeds \cup {"none"} : Set("seed", x, [val EXCEPT !.seed = x])
\* membership change = resharing: other nodes, threshold, transition time and non-constant
\* coefficients; genesis, period, id, the (explicit) genesis seed and the public key stay
G_Reshare == /\ HasChain(val) /\ val.seed # "none"
             /\ \E add \in BOOLEAN, k \in DOMAIN val.nodes, i \in NodeIdx, key \in NodeKeys, t \in Transitions, r \in Rests :
                  LET ns == IF add THEN Append(val.nodes, <<i, key>>)
                            ELSE [j \in 1..(Len(val.nodes) - 1) |-> IF j < k THEN val.nodes[j] ELSE val.nodes[j + 1]]
                      v2 == [val EXCEPT !.nodes = ns, !.thr = MinimumT(Len(ns)), !.transition = t, !.dist = <<val.dist[1], r>>]
                  IN /\ Len(ns) >= 1 /\ WellFormedNodes(ns) /\ t # 0
                     /\ val' = v2 /\ prev' = val
                     /\ act' = [name |-> "reshare"]
G_Via == \E path \in {"toml", "proto", "file"} :
            val' = val /\ prev' = val /\ act' = [name |-> "via", path |-> path]

GroupNext == G_Permute \/ G_SetNodeKey \/ G_SetNodeIndex \/ G_SetThr \/ G_SetGenesis \/ G_SetTransition
             \/ G_SetDist \/ G_SetId \/ G_SetPeriod \/ G_SetSeed \/ G_Reshare \/ G_Via

-----------------------------------------------------------------------------
(* Sequence families: ONE Go value lives through the whole behaviour.  Its     *)
(* fields are assigned in place, documents are decoded INTO it, it is copied   *)
(* and the copy changed - and after every step its hash is taken again.  The   *)
(* hash returned at any moment is the hash of the CURRENT fields.  Whatever    *)
(* the code caches is modelled as coded: Group.GetGenesisSeed (called by       *)
(* NewChainInfo, TOML, ToProto) stores the group hash of that moment as the    *)
(* genesis seed of a seedless group; Group.Hash sorts the node listing.        *)

\* chainseq: the harness calls Hash() on the live Info after every step
Q_Hash == val' = val /\ prev' = val /\ act' = [name |-> "hash"]
\* c := *info; c.field = x; continue with c
Q_CopySet == \E f \in {"period", "genesis", "pk", "seed", "id"} :
               \E x \in (CASE f = "period" -> Periods [] f = "genesis" -> Geneses [] f = "pk" -> Firsts
                           [] f = "seed" -> Seeds [] OTHER -> Ids) :
                 /\ x # val[f]
                 /\ val' = [val EXCEPT ![f] = x] /\ prev' = val
                 /\ act' = [name |-> "copyset", field |-> f]
\* info.ToProto(): the packet declares a hash
Q_ToProto == val' = val /\ prev' = val /\ act' = [name |-> "toproto"]
\* decode a document INTO the live value: the document carries the fields fv and declares the
\* hash of dv (decl: none = no hash, own = of its fields, cur = of the live value, other = of a
\* third value).  json.Unmarshal(doc, info) assigns the fields before it compares the hash (so
\* they stay assigned when it rejects); info = InfoFromProto(packet) replaces the value only
\* when the packet is accepted.
DocFields == {val} \cup UNION {{[val EXCEPT ![f] = x] :
                  x \in (CASE f = "period" -> Periods [] f = "genesis" -> Geneses [] f = "pk" -> Firsts
                           [] f = "seed" -> Seeds [] OTHER -> Ids)} : f \in {"period", "genesis", "pk", "seed", "id"}}
Q_Decode == \E path \in {"json", "proto"}, fv \in DocFields, decl \in {"none", "own", "cur", "other"} :
              LET dv == CASE decl = "own" -> fv [] decl = "cur" -> val [] OTHER -> InfoInit
                  accept == decl = "none" \/ ChainHash(ChainOfInfo(fv)) = ChainHash(ChainOfInfo(dv))
              IN /\ val' = (IF path = "json" \/ accept THEN fv ELSE val) /\ prev' = val
                 /\ act' = [name |-> "decode", path |-> path, fv |-> fv, decl |-> decl, dv |-> dv, accept |-> accept]

ChainSeqSets == C_SetPeriod \/ C_SetGenesis \/ C_SetPk \/ C_SetSeed \/ C_SetId
ChainSeqNext == ChainSeqSets \/ Q_Hash \/ Q_CopySet \/ Q_ToProto \/ Q_Decode

\* groupseq: after every step the harness calls Hash() on the live group and, when it has a
\* key, NewChainInfo(group).Hash() - which runs GetGenesisSeed
Snap(g) == [nodes |-> g.nodes, thr |-> g.thr, genesis |-> g.genesis, transition |-> g.transition,
            dist |-> g.dist, id |-> g.id]
Observe(g) == IF HasChain(g) /\ g.seed = "none" THEN [g EXCEPT !.seed = "frozen", !.frozen = Snap(g)] ELSE g
SeqSet(field, v2) == /\ v2 # val
                     /\ val' = Observe(v2) /\ prev' = val
                     /\ act' = [name |-> "set", field |-> field]
R_Sets ==
  \/ \E k \in DOMAIN val.nodes, x \in NodeKeys :
        LET ns == [val.nodes EXCEPT ![k] = <<val.nodes[k][1], x>>] IN
        WellFormedNodes(ns) /\ SeqSet("nodekey", [val EXCEPT !.nodes = ns])
  \/ \E k \in DOMAIN val.nodes, x \in NodeIdx :
        LET ns == [val.nodes EXCEPT ![k] = <<x, val.nodes[k][2]>>] IN
        WellFormedNodes(ns) /\ SeqSet("nodeindex", [val EXCEPT !.nodes = ns])
  \/ \E x \in 1..MaxNodes : LET v2 == [val EXCEPT !.thr = x] IN ThrOK(v2) /\ SeqSet("threshold", v2)
  \/ \E x \in Geneses : SeqSet("genesis", [val EXCEPT !.genesis = x])
  \/ \E x \in Transitions : SeqSet("transition", [val EXCEPT !.transition = x])
  \/ \E x \in {<<>>} \cup {<<a, b>> : a \in Firsts, b \in Rests} :
        LET v2 == [val EXCEPT !.dist = x] IN DistTerm(v2) # DistTerm(val) /\ SeqSet("dist", v2)
  \/ \E x \in Ids : SeqSet("id", [val EXCEPT !.id = x])
  \/ \E x \in Periods : SeqSet("period", [val EXCEPT !.period = x])
  \/ \E x \in Seeds \cup {"none"} : SeqSet("seed", [val EXCEPT !.seed = x, !.frozen = <<>>])
R_Permute == \E f \in Perms(Len(val.nodes)) :
               LET ns == [k \in 1..Len(val.nodes) |-> val.nodes[f[k]]] IN
               /\ ns # val.nodes
               /\ val' = Observe([val EXCEPT !.nodes = ns]) /\ prev' = val
               /\ act' = [name |-> "permute"]
R_Hash == val' = Observe(val) /\ prev' = val /\ act' = [name |-> "hash"]
\* c := *group (the copy shares nothing the hash depends on but the node slice); c.field = x
CopySet(f, v2) == /\ v2 # val
                  /\ val' = Observe(v2) /\ prev' = val
                  /\ act' = [name |-> "copyset", field |-> f]
R_CopySet == \/ \E x \in Geneses : CopySet("genesis", [val EXCEPT !.genesis = x])
             \/ \E x \in 1..MaxNodes : LET v2 == [val EXCEPT !.thr = x] IN ThrOK(v2) /\ CopySet("threshold", v2)
             \/ \E x \in Ids : CopySet("id", [val EXCEPT !.id = x])
GroupSeqNext == R_Sets \/ R_Permute \/ R_Hash \/ R_CopySet

Init == /\ val = (IF IsChainFam THEN InfoInit
                  ELSE IF Family = "groupseq" THEN Observe(GroupInit @@ [frozen |-> <<>>])
                  ELSE GroupInit)
        /\ act = [name |-> "init"] /\ prev = val

Next == CASE Family = "chain" -> ChainNext [] Family = "chainseq" -> ChainSeqNext
          [] Family = "groupseq" -> GroupSeqNext [] OTHER -> GroupNext

Spec == Init /\ [][Next]_vars
View == val

-----------------------------------------------------------------------------
(* Design-level properties: the statement's claims hold for the modelled      *)
(* preimages (history variables relate every value to its predecessor)        *)

TypeOK == IF IsChainFam THEN TRUE ELSE WellFormedNodes(val.nodes) /\ ThrOK(val)

\* changing any one listed parameter changes the hash ("" and "default" are one id)
ChainListed == {"period", "genesis", "pk", "seed", "id"}
GroupListed == {"nodekey", "nodeindex", "threshold", "genesis", "transition", "dist", "id"}
SameMeaning(f) == f = "id" /\ IdOrDefault(prev.id) = IdOrDefault(val.id)
Inv_PerturbChanges ==
  (act.name \in {"set", "copyset"} /\ act.field \in (IF IsChainFam THEN ChainListed ELSE GroupListed) /\ ~SameMeaning(act.field))
     => Hash(val) # Hash(prev)
Inv_DefaultIdEquivalent == (act.name \in {"set", "copyset"} /\ SameMeaning(act.field)) => Hash(val) = Hash(prev)
\* the group's chain hash follows the chain parameters of the group
Inv_GroupChain ==
  (Family = "group" /\ act.name = "set" /\ HasChain(val) /\ HasChain(prev)) =>
     LET same == ChainHash(ChainOfGroup(val)) = ChainHash(ChainOfGroup(prev)) IN
     CASE act.field \in {"period", "genesis"} -> ~same
       [] act.field = "seed" -> ~same
       [] act.field = "dist" -> (same <=> val.dist[1] = prev.dist[1])
       [] act.field = "id" -> (same <=> SameMeaning("id"))
       [] act.field \in {"nodekey", "nodeindex", "threshold", "transition"} -> (same <=> val.seed # "none")
       [] OTHER -> TRUE
\* node listing order is irrelevant
Inv_PermuteKeeps == act.name = "permute" => Hash(val) = Hash(prev) /\ val # prev
\* membership changes do not change the chain hash (they do change the group hash)
Inv_ReshareKeepsChain ==
  act.name = "reshare" => /\ ChainHash(ChainOfGroup(val)) = ChainHash(ChainOfGroup(prev))
                          /\ GroupHash(val) # GroupHash(prev)
\* an encoding path does not touch the parameters
Inv_ViaKeeps == act.name \in {"via", "tamper"} => val = prev
\* a tampered field of the statement's list always breaks the embedded hash, except the id
\* moving between "" and "default"
Inv_TamperDetectable ==
  (act.name = "tamper" /\ ~act.strip) =>
     LET t == [val EXCEPT ![act.field] = act.nv] IN
     (ChainHash(ChainOfInfo(t)) = ChainHash(ChainOfInfo(val))) <=>
        (act.field = "id" /\ IdOrDefault(act.nv) = IdOrDefault(val.id))
\* sequence families: taking the hash, or emitting a packet, does not change the parameters; a
\* decoded document is accepted exactly when it declares no hash or the hash of its fields; once
\* the genesis seed of a group is cached, changing the membership no longer moves the chain hash
Inv_SeqObserveOnly == (act.name \in {"hash", "toproto"} /\ IsChainFam) => val = prev
Inv_SeqDecode == act.name = "decode" =>
                   /\ act.accept <=> (act.decl = "none" \/ ChainHash(ChainOfInfo(act.fv)) = ChainHash(ChainOfInfo(act.dv)))
                   /\ (act.accept => val = act.fv)
Inv_SeqFrozen == (Family = "groupseq" /\ HasChain(val)) => val.seed # "none"
Inv_SeqFrozenChain ==
  (Family = "groupseq" /\ act.name = "set" /\ act.field \in {"nodekey", "nodeindex", "threshold", "transition"}
     /\ HasChain(val) /\ HasChain(prev))
    => ChainHash(ChainOfGroup(val)) = ChainHash(ChainOfGroup(prev))
=============================================================================
