------------------------------- MODULE Beacon -------------------------------
(***************************************************************************)
(* Network-level model of drand beacon production, transcribed from        *)
(* internal/chain/beacon/{ticker,node,chainstore,store,sync_manager}.go.   *)
(*                                                                         *)
(* One action per critical section of the code:                            *)
(*   Advance       FakeClock/real clock moves; the ticker goroutine puts a *)
(*                 tick in the handler's 1-slot channel (dropped if full)  *)
(*   TickRecv      Handler.run: `case current = <-chanTick`                *)
(*   TickSign      ... h.chain.Last(), broadcastNextPartial, maybe RunSync *)
(*                 (two steps: a store Put can fall between them)          *)
(*   Deliver       ProcessPartialBeacon (filter) + runAggregator (window,  *)
(*                 cache, threshold, Recover, tryAppend -> appendStore.Put)*)
(*   AggNotice     "chainstore" callback -> beaconStoredAgg -> FlushRounds *)
(*   CatchupRecv   Handler.run: `case b := <-AppendedBeaconNoSync()`       *)
(*   CatchupFire   goroutine after Clock.Sleep(CatchupPeriod)              *)
(*   SyncStep      SyncManager.tryNode: one verified beacon from a peer    *)
(*   Stop/Restart  Handler.Stop / NewHandler on the same store + Catchup   *)
(*                                                                         *)
(* Valid BLS signatures are unique, so a chain is represented by its head  *)
(* (content of round r is a function of r); byte-level agreement is        *)
(* checked on traces (digests).  Time unit = catch-up period; P units per  *)
(* round.  Round r is due at (r-1)*P; genesis = 0.                         *)
(***************************************************************************)
EXTENDS Integers, FiniteSets, Sequences, TLC

CONSTANTS Nodes,       \* group members (all honest in this module; adversarial
                       \* partials are explored at node level, see Trace_Beacon)
          Thr,         \* threshold
          P,           \* period in time units (catch-up period = 1 unit)
          MaxRound,    \* clocks stop at the time of round MaxRound
          MaxSkew,     \* max difference between two clocks
          SyncDelivery,\* TRUE: a broadcast is processed by all receivers at once
          Faults       \* max number of Stop actions

VARIABLES clock,   \* [Nodes -> Int]
          tick,    \* [Nodes -> Nat]   pending tick (round), 0 = empty slot
          cur,     \* [Nodes -> Nat]   `current.round` of the run loop
          pc,      \* [Nodes -> {"idle","gotTick"}]
          head,    \* [Nodes -> Nat]   stored head
          aggLast, \* [Nodes -> Nat]   aggregator's lastBeacon view (<= head)
          cache,   \* [Nodes -> [round -> SUBSET Nodes]] cached valid partials
          cup,     \* [Nodes -> Nat]   catchupBeacons 1-slot channel, 0 = empty
          timers,  \* [Nodes -> SUBSET (round \X fireTime)] armed catch-up goroutines
          net,     \* set of in-flight partials [from, to, round]
          want,    \* [Nodes -> Nat]   pending sync request (upTo), 0 = none
          up,      \* [Nodes -> BOOLEAN]
          early,   \* "no" | "staleTick" | "other" : an honest partial left before its round's time
          faults,  \* number of Stop actions taken
          act      \* last action (history variable, hidden by View)

vars == <<clock, tick, cur, pc, head, aggLast, cache, cup, timers, net, want, up, early, faults, act>>
View == <<clock, tick, cur, pc, head, aggLast, cache, cup, timers, net, want, up, early, faults>>

Rounds == 1..(MaxRound + 1)
TimeOf(r) == (r - 1) * P
RoundAt(t) == IF t < 0 THEN 0 ELSE (t \div P) + 1      \* common.CurrentRound
MaxClock == TimeOf(MaxRound) + (P - 1)
EmptyCache == [r \in Rounds |-> {}]
Max2(a, b) == IF a > b THEN a ELSE b

Init ==
  /\ clock = [n \in Nodes |-> -1]
  /\ tick = [n \in Nodes |-> 0] /\ cur = [n \in Nodes |-> 0]
  /\ pc = [n \in Nodes |-> "idle"]
  /\ head = [n \in Nodes |-> 0] /\ aggLast = [n \in Nodes |-> 0]
  /\ cache = [n \in Nodes |-> EmptyCache]
  /\ cup = [n \in Nodes |-> 0] /\ timers = [n \in Nodes |-> {}]
  /\ net = {} /\ want = [n \in Nodes |-> 0]
  /\ up = [n \in Nodes |-> TRUE] /\ early = "no" /\ faults = 0
  /\ act = [name |-> "Init"]

-----------------------------------------------------------------------------
(* appendStore.Put under its mutex: only head+1 is stored.                  *)
CanAppend(n, r) == r = head[n] + 1

(* runAggregator on one accepted partial of signer s for round r at node n. *)
(* Returns the new per-node values as a record.                              *)
Aggregate(n, s, r, hd, al, ch, cp, wt) ==
  LET inWindow == r > al /\ r <= al + 4          \* partialCacheStoreLimit + 1
  IN IF ~inWindow THEN [head |-> hd, aggLast |-> al, cache |-> ch, cup |-> cp, want |-> wt]
     ELSE LET c1 == [ch EXCEPT ![r] = @ \cup {s}]
          IN IF Cardinality(c1[r]) < Thr
               THEN [head |-> hd, aggLast |-> al, cache |-> c1, cup |-> cp, want |-> wt]
               ELSE \* Recover + VerifyRecovered, FlushRounds(r), tryAppend(lastBeacon, new)
                    LET c2 == [x \in Rounds |-> IF x <= r THEN {} ELSE c1[x]]
                    IN IF al + 1 # r
                         THEN \* not appendable; shouldSync: r > al + 1
                              [head |-> hd, aggLast |-> al, cache |-> c2, cup |-> cp,
                               want |-> IF r > al + 1 THEN Max2(wt, r) ELSE wt]
                         ELSE IF r = hd + 1
                                THEN [head |-> r, aggLast |-> r, cache |-> c2,
                                      cup |-> IF cp = 0 THEN r ELSE cp, want |-> wt]
                                ELSE IF r = hd   \* ErrBeaconAlreadyStored: lost the race with sync
                                       THEN [head |-> hd, aggLast |-> r, cache |-> c2,
                                             cup |-> IF cp = 0 THEN r ELSE cp, want |-> wt]
                                       ELSE [head |-> hd, aggLast |-> al, cache |-> c2, cup |-> cp, want |-> wt]

(* ProcessPartialBeacon filter followed by the aggregator.                   *)
Receive(n, s, r, st) ==
  IF ~up[n] \/ r > RoundAt(st.clock) + 1 \/ r <= st.head
    THEN st
    ELSE LET a == Aggregate(n, s, r, st.head, st.aggLast, st.cache, st.cup, st.want)
         IN [st EXCEPT !.head = a.head, !.aggLast = a.aggLast, !.cache = a.cache, !.cup = a.cup, !.want = a.want]

NodeStateW(n, w) == [clock |-> clock[n], head |-> head[n], aggLast |-> aggLast[n], cache |-> cache[n],
                     cup |-> cup[n], want |-> w[n]]
NodeState(n) == NodeStateW(n, want)

(* broadcastNextPartial(current, upon): the round signed and whether it is   *)
(* released before its time.                                                 *)
SignedRound(c, uponRound) == IF c = uponRound THEN c ELSE uponRound + 1

(* w = the `want` function after the caller's own update                     *)
Broadcast(n, r, kind, w) ==
  \* own partial goes to the own aggregator (not filtered by the clock); the others receive it
  LET isEarly == TimeOf(r) > clock[n]
      own == Receive(n, n, r, [NodeStateW(n, w) EXCEPT !.clock = TimeOf(r) + P])
  IN /\ early' = IF isEarly /\ early = "no" THEN kind ELSE early
     /\ IF SyncDelivery
          THEN LET st(m) == IF m = n THEN own ELSE Receive(m, n, r, NodeStateW(m, w))
               IN /\ head' = [m \in Nodes |-> st(m).head]
                  /\ aggLast' = [m \in Nodes |-> st(m).aggLast]
                  /\ cache' = [m \in Nodes |-> st(m).cache]
                  /\ cup' = [m \in Nodes |-> st(m).cup]
                  /\ want' = [m \in Nodes |-> st(m).want]
                  /\ net' = net
          ELSE /\ head' = [head EXCEPT ![n] = own.head]
               /\ aggLast' = [aggLast EXCEPT ![n] = own.aggLast]
               /\ cache' = [cache EXCEPT ![n] = own.cache]
               /\ cup' = [cup EXCEPT ![n] = own.cup]
               /\ want' = [w EXCEPT ![n] = own.want]
               /\ net' = net \cup {[from |-> n, to |-> m, round |-> r] : m \in {x \in Nodes \ {n} : up[x]}}

Advance(n) ==
  /\ clock[n] < MaxClock
  /\ \A m \in Nodes : clock[n] + 1 - clock[m] <= MaxSkew
  /\ clock' = [clock EXCEPT ![n] = @ + 1]
  /\ LET t == clock[n] + 1
         fires == up[n] /\ t >= 0 /\ t % P = 0
     IN tick' = IF fires /\ tick[n] = 0 THEN [tick EXCEPT ![n] = RoundAt(t)] ELSE tick
  /\ UNCHANGED <<cur, pc, head, aggLast, cache, cup, timers, net, want, up, early, faults>>
  /\ act' = [name |-> "Advance", n |-> n, to |-> clock[n] + 1]

TickRecv(n) ==
  /\ up[n] /\ pc[n] = "idle" /\ tick[n] # 0
  /\ cur' = [cur EXCEPT ![n] = tick[n]]
  /\ tick' = [tick EXCEPT ![n] = 0]
  /\ pc' = [pc EXCEPT ![n] = "gotTick"]
  /\ UNCHANGED <<clock, head, aggLast, cache, cup, timers, net, want, up, early, faults>>
  /\ act' = [name |-> "TickRecv", n |-> n, round |-> tick[n]]

TickSign(n) ==
  /\ up[n] /\ pc[n] = "gotTick"
  /\ LET h == head[n]
         r == SignedRound(cur[n], h)
     IN IF h > cur[n]
          THEN \* broadcastNextPartial returns at once: the chain is ahead of the ticked round, the
               \* next round's time has not come for this node (repair of F8, see known_findings.json)
               UNCHANGED <<head, aggLast, cache, cup, net, want, early>>
          ELSE /\ r \in Rounds
               /\ Broadcast(n, r, IF h >= cur[n] /\ r > cur[n] THEN "staleTick" ELSE "other",
                            [want EXCEPT ![n] = IF h + 1 < cur[n] THEN Max2(@, cur[n]) ELSE @])
  /\ pc' = [pc EXCEPT ![n] = "idle"]
  /\ UNCHANGED <<clock, tick, cur, timers, up, faults>>
  /\ act' = [name |-> "TickSign", n |-> n, round |-> SignedRound(cur[n], head[n])]

Deliver(m) ==
  /\ ~SyncDelivery /\ m \in net
  /\ net' = net \ {m}
  /\ LET st == Receive(m.to, m.from, m.round, NodeState(m.to))
     IN /\ head' = [head EXCEPT ![m.to] = st.head]
        /\ aggLast' = [aggLast EXCEPT ![m.to] = st.aggLast]
        /\ cache' = [cache EXCEPT ![m.to] = st.cache]
        /\ cup' = [cup EXCEPT ![m.to] = st.cup]
        /\ want' = [want EXCEPT ![m.to] = st.want]
  /\ UNCHANGED <<clock, tick, cur, pc, timers, up, early, faults>>
  /\ act' = [name |-> "Deliver", from |-> m.from, n |-> m.to, round |-> m.round]

\* a message that can have no effect any more is dropped (keeps the state space finite and small)
Prune == /\ \E m \in net : m.round <= head[m.to] \/ ~up[m.to]
         /\ net' = {m \in net : m.round > head[m.to] /\ up[m.to]}
         /\ UNCHANGED <<clock, tick, cur, pc, head, aggLast, cache, cup, timers, want, up, early, faults>>
         /\ act' = [name |-> "Prune"]

AggNotice(n) ==   \* beaconStoredAgg after a Put by the sync path
  /\ up[n] /\ aggLast[n] < head[n]
  /\ aggLast' = [aggLast EXCEPT ![n] = head[n]]
  /\ cache' = [cache EXCEPT ![n] = [x \in Rounds |-> IF x <= head[n] THEN {} ELSE @[x]]]
  /\ UNCHANGED <<clock, tick, cur, pc, head, cup, timers, net, want, up, early, faults>>
  /\ act' = [name |-> "AggNotice", n |-> n]

CatchupRecv(n) ==
  /\ up[n] /\ pc[n] = "idle" /\ cup[n] # 0
  /\ cup' = [cup EXCEPT ![n] = 0]
  /\ timers' = IF cup[n] < cur[n]
                 THEN [timers EXCEPT ![n] = @ \cup {<<cup[n], clock[n] + 1>>}]
                 ELSE timers
  /\ UNCHANGED <<clock, tick, cur, pc, head, aggLast, cache, net, want, up, early, faults>>
  /\ act' = [name |-> "CatchupRecv", n |-> n, b |-> cup[n]]

CatchupFire(n, tm) ==
  /\ up[n] /\ tm \in timers[n] /\ clock[n] >= tm[2]
  /\ timers' = [timers EXCEPT ![n] = @ \ {tm}]
  /\ LET r == tm[1] + 1 IN
       /\ r \in Rounds
       /\ Broadcast(n, r, "other", want)
  /\ UNCHANGED <<clock, tick, cur, pc, up, faults>>
  /\ act' = [name |-> "CatchupFire", n |-> n, upon |-> tm[1]]

SyncStep(n, p) ==   \* tryNode: next beacon from peer p, verified, appendStore.Put
  /\ up[n] /\ up[p] /\ n # p
  /\ want[n] > head[n] /\ head[p] > head[n]
  /\ head' = [head EXCEPT ![n] = @ + 1]
  /\ want' = [want EXCEPT ![n] = IF head[n] + 1 >= @ THEN 0 ELSE @]
  /\ UNCHANGED <<clock, tick, cur, pc, aggLast, cache, cup, timers, net, up, early, faults>>
  /\ act' = [name |-> "SyncStep", n |-> n, peer |-> p, round |-> head[n] + 1]

SyncGiveUp(n) ==    \* nobody has more: request is filled or fails (ErrFailedAll)
  /\ want[n] # 0 /\ \A p \in Nodes \ {n} : ~up[p] \/ head[p] <= head[n]
  /\ want' = [want EXCEPT ![n] = 0]
  /\ UNCHANGED <<clock, tick, cur, pc, head, aggLast, cache, cup, timers, net, up, early, faults>>
  /\ act' = [name |-> "SyncGiveUp", n |-> n]

Stop(n) ==
  /\ up[n] /\ faults < Faults
  /\ up' = [up EXCEPT ![n] = FALSE] /\ faults' = faults + 1
  /\ tick' = [tick EXCEPT ![n] = 0] /\ cup' = [cup EXCEPT ![n] = 0]
  /\ timers' = [timers EXCEPT ![n] = {}] /\ pc' = [pc EXCEPT ![n] = "idle"]
  /\ cache' = [cache EXCEPT ![n] = EmptyCache] /\ want' = [want EXCEPT ![n] = 0]
  /\ UNCHANGED <<clock, cur, head, aggLast, net, early>>
  /\ act' = [name |-> "Stop", n |-> n]

Restart(n) ==       \* NewHandler on the same store, Catchup(): run loop + RunSync(nextRound)
  /\ ~up[n]
  /\ up' = [up EXCEPT ![n] = TRUE]
  /\ cur' = [cur EXCEPT ![n] = 0]
  /\ aggLast' = [aggLast EXCEPT ![n] = head[n]]
  /\ want' = [want EXCEPT ![n] = RoundAt(clock[n]) + 1]
  /\ UNCHANGED <<clock, tick, pc, head, cache, cup, timers, net, early, faults>>
  /\ act' = [name |-> "Restart", n |-> n]

(* Internal steps that the implementation takes by itself as soon as it can   *)
(* (callback worker -> aggregator flush, run loop picking up an appended      *)
(* beacon, dropping messages that can have no effect) are taken eagerly: while *)
(* one is enabled nothing else happens.  This is the hand-made partial-order   *)
(* reduction that keeps the exhaustive configurations finite in minutes; the   *)
(* Full variant (NextFull) keeps every interleaving and is used by simulation. *)
EagerEnabled ==
  \/ \E n \in Nodes : up[n] /\ aggLast[n] < head[n]
  \/ \E n \in Nodes : up[n] /\ pc[n] = "idle" /\ cup[n] # 0
  \/ \E n \in Nodes : up[n] /\ pc[n] = "idle" /\ tick[n] # 0
  \/ \E m \in net : m.round <= head[m.to] \/ ~up[m.to]

EagerStep == \/ \E n \in Nodes : AggNotice(n) \/ CatchupRecv(n) \/ TickRecv(n)
             \/ Prune

OtherStep ==
  \/ \E n \in Nodes : Advance(n) \/ TickSign(n) \/ SyncGiveUp(n) \/ Stop(n) \/ Restart(n)
  \/ \E n \in Nodes : \E tm \in timers[n] : CatchupFire(n, tm)
  \/ \E m \in net : Deliver(m)
  \/ \E n, p \in Nodes : SyncStep(n, p)

(* Time does not stop in reality.  In the liveness configuration with faults the clocks are still
   capped, but ticks keep coming: a tick of the round after MaxRound (so a node that is behind sees
   "head+1 < current" and syncs, exactly as at the next real tick). *)
IdleTick(n) ==
  /\ up[n] /\ clock[n] = MaxClock /\ tick[n] = 0 /\ pc[n] = "idle" /\ head[n] < MaxRound
  /\ tick' = [tick EXCEPT ![n] = MaxRound + 1]
  /\ act' = [name |-> "IdleTick", n |-> n]
  /\ UNCHANGED <<clock, cur, pc, head, aggLast, cache, cup, timers, net, want, up, early, faults>>

Next == IF EagerEnabled THEN EagerStep ELSE OtherStep
NextF == IF EagerEnabled THEN EagerStep ELSE (OtherStep \/ \E n \in Nodes : IdleTick(n))
NextFull == EagerStep \/ OtherStep

Spec == Init /\ [][Next]_vars
SpecFull == Init /\ [][NextFull]_vars

-----------------------------------------------------------------------------
(* Properties of the design                                                  *)

TypeOK == /\ \A n \in Nodes : head[n] \in 0..(MaxRound + 1) /\ aggLast[n] <= head[n]
          /\ early \in {"no", "staleTick", "other"}

\* C04: no honest partial before its round's time.
NoEarlyPartial == early = "no"
\* ... except the named deviation F8 (a tick handled when the stored head is already
\* at or beyond the ticked round signs head+1 at once).
NoEarlyPartialButStaleTick == early # "other"

\* C04/C05: with every clock before round r's time (minus the one-round tolerance of
\* the filter) no beacon of round r exists anywhere.
NoEarlyBeacon == \A n \in Nodes : head[n] > 0 =>
                    \E m \in Nodes : RoundAt(clock[m]) + 1 >= head[n]

\* C02: heads move by one; C05 safety companion.
NoSkip == [][\A n \in Nodes : head'[n] \in {head[n], head[n] + 1}]_vars

\* C03 at design level: a beacon is stored by aggregation only with Thr distinct signers
\* (structural in Aggregate); companion: nothing cached for stored rounds after a flush.
CacheAboveAggLast == \A n \in Nodes : \A r \in Rounds : cache[n][r] # {} => r > aggLast[n] \/ ~up[n]

\* C05: liveness (checked without Stop faults in the liveness config)
AllAtMax == \A n \in Nodes : head[n] >= MaxRound
Live == <>[]AllAtMax
Fairness == /\ \A n \in Nodes : WF_vars(Advance(n)) /\ WF_vars(TickRecv(n)) /\ WF_vars(TickSign(n))
                               /\ WF_vars(AggNotice(n)) /\ WF_vars(CatchupRecv(n)) /\ WF_vars(SyncGiveUp(n))
            /\ \A n \in Nodes : WF_vars(\E tm \in timers[n] : CatchupFire(n, tm))
            /\ WF_vars(\E m \in net : Deliver(m))
            /\ \A n, p \in Nodes : WF_vars(SyncStep(n, p))
            /\ WF_vars(Prune)
LiveSpec == Spec /\ Fairness
LiveSpecF == Init /\ [][NextF]_vars /\ Fairness /\ \A n \in Nodes : WF_vars(Restart(n)) /\ WF_vars(IdleTick(n))
=============================================================================
