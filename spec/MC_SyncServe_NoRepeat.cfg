SPECIFICATION Spec
CONSTANTS
  Streams = {1, 2}
  SameAddr = FALSE
  Writers = {1}
  Q = 2
  InitHead = 2
  MaxR = 5
  Froms = {0, 1, 2, 3, 4, 5, 1000}
  Backend = "bolt"
  Buf = 100
  Remap = FALSE
  Faults = {}
  MaxFaults = 0
INVARIANTS Mon_NoRepeat
CHECK_DEADLOCK FALSE
