------------------------ MODULE Trace_PartialHandover ------------------------
EXTENDS PartialHandover, Sequences, Json, TLC
TraceLog == ndJsonDeserialize("trace.ndjson")
VARIABLES l, alarms
Alarm(mon, e, d) == [mon |-> mon, scenario |-> e.scenario, ev |-> e.ev, line |-> l, detail |-> d]
If(c, S) == IF c THEN S ELSE {}
TraceInit == Init /\ l = 1 /\ alarms = {}
\* one flood: the aggregator is parked inside its work (holding one partial, buffer empty), k callers submit
Step(e) ==
  \/ /\ e.ev = "Flood"
     /\ LET exp == IF e.cap - e.buffered >= e.k THEN e.k ELSE e.cap - e.buffered IN
        alarms' = alarms
          \cup If(e.returned > e.cap - e.buffered, {Alarm("HandoverUnbounded", e, "calls returned while the aggregator was stuck and its buffer full")})
          \cup If(e.returned < exp, {Alarm("Conformance", e, "fewer calls returned than the buffer has room for")})
          \cup If(e.returned + e.blocked # e.k, {Alarm("Conformance", e, "calls unaccounted for")})
  \/ /\ e.ev = "Drain"
     /\ alarms' = alarms \cup If(e.returned # e.k, {Alarm("HandoverStuck", e, "callers still blocked after the aggregator went on")})
  \/ /\ e.ev \notin {"Flood", "Drain"} /\ alarms' = alarms
TraceNext == l <= Len(TraceLog) /\ Step(TraceLog[l]) /\ l' = l + 1 /\ UNCHANGED vars
TraceSpec == TraceInit /\ [][TraceNext]_<<vars, l, alarms>>
AtEnd == l = Len(TraceLog) + 1 =>
           /\ PrintT(<<"VP", "ALARMS", ToJson(alarms)>>)
           /\ PrintT(<<"VP", "DONE", ToJson([lines |-> Len(TraceLog)])>>)
=============================================================================
