SPECIFICATION Spec
CONSTANTS
  n1 = n1
  n2 = n2
  n3 = n3
  Nodes = {n1, n2, n3}
  Thr = 2
  P = 2
  MaxRound = 3
  MaxSkew = 2
  SyncDelivery = TRUE
  Faults = 1
SYMMETRY Sym
INVARIANTS TypeOK NoEarlyPartial NoEarlyBeacon CacheAboveAggLast
PROPERTIES NoSkip
CHECK_DEADLOCK FALSE
VIEW View
