----------------------- MODULE Trace_GroupTransition -----------------------
EXTENDS GroupTransition, Sequences, Json
TraceLog == ndJsonDeserialize("trace.ndjson")
VARIABLES l, alarms
Alarm(mon, e, d) == [mon |-> mon, scenario |-> "grouptransition", ev |-> e.ev, line |-> l, detail |-> d]
If(c, S) == IF c THEN S ELSE {}
G(r) == [gen |-> r[1], period |-> r[2], id |-> r[3], seed |-> r[4], trans |-> r[5]]
TraceInit == Init /\ l = 1 /\ alarms = {}
Step(e) == /\ e.ev = "Validate"
           /\ LET o == G(e.old) n == G(e.new)
                  changed == IF o.gen # n.gen THEN "genesis-time" ELSE IF o.seed # n.seed THEN "genesis-seed"
                             ELSE IF o.period # n.period THEN "period" ELSE IF ~SameId(o.id, n.id) THEN "beacon-id" ELSE "none"
              IN alarms' = alarms \cup If(e.accepted /\ ~IdentityKept(o, n), {Alarm("IdentityChanged", e, changed)})
                                  \cup If(e.accepted # Accepts(o, n, e.now), {Alarm("Conformance", e, "verdict differs from the specification")})
           /\ UNCHANGED <<case, done>>
TraceNext == l <= Len(TraceLog) /\ Step(TraceLog[l]) /\ l' = l + 1
TraceSpec == TraceInit /\ [][TraceNext]_<<case, done, l, alarms>>
AtEnd == l = Len(TraceLog) + 1 =>
           /\ PrintT(<<"VP", "ALARMS", ToJson(alarms)>>)
           /\ PrintT(<<"VP", "DONE", ToJson([lines |-> Len(TraceLog)])>>)
=============================================================================
