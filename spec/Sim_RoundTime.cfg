INIT SimInit
NEXT SimNext
CONSTANTS
  Seed = 1
  Pow2 <- MCPow2
  FloorLog2 <- MCFloorLog2
  WordBits = 30
  BufBits = 20
  Periods <- GridPeriods
  Geneses <- GridGeneses
  RoundArgs <- GridRounds
  Elapsed <- GridElapsed
CHECK_DEADLOCK FALSE
