------------------------- MODULE MC_DaemonEndpoints -------------------------
(* constants of the exhaustive configurations of DaemonEndpoints *)
EXTENDS DaemonEndpoints
SkipNone == {}
\* the request class of the confirmed defect F1 (Dkg-variant gossip packet re-enters d.lock)
SkipF1 == {<<"DKGPacket", "dkgWithMeta">>}
ASSUME Balanced
=============================================================================
