------------------------- MODULE MC_DaemonEndpoints -------------------------
(* constants of the exhaustive configurations of DaemonEndpoints *)
EXTENDS DaemonEndpoints
SkipNone == {}
ASSUME Balanced
=============================================================================
