SPECIFICATION SpecC
CONSTANTS
  Chains = {"default", "a"}
  MaxSteps = 0
  Skip <- SkipF1
  NoScan = FALSE
INVARIANTS Inv_DeadlockIsABBA
CHECK_DEADLOCK FALSE
