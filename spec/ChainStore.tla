----------------------------- MODULE ChainStore -----------------------------
(***************************************************************************)
(* The layered chain store of one node, transcribed from                   *)
(* internal/chain/beacon/store.go: appendStore (only last+1, same-round    *)
(* re-put reported as already-stored or rejected if different) over        *)
(* schemeStore (previous-signature link on chained schemes, previous       *)
(* stripped on unchained) over the base store, with its two concurrent     *)
(* writers: the aggregator (chainStore.tryAppend with its own, possibly    *)
(* stale, view of the last beacon) and the sync client (tryNode).          *)
(* Everything inside appendStore.Put happens under its mutex, so a Put is  *)
(* one atomic action; the writers' stale views are environment choices.    *)
(* A beacon is <<round, sig, prev>> with small integer identities.         *)
(***************************************************************************)
EXTENDS Integers, FiniteSets, Sequences, TLC

CONSTANTS Chained,    \* BOOLEAN
          MaxRound,   \* rounds 0..MaxRound
          Sigs        \* signature identities used by the environment (0 = genesis seed)

VARIABLES base,   \* [round -> <<sig, prev>>]   base store content (prev = -1: stored without previous)
          aLast,  \* appendStore.last  = <<round, sig, prev>>
          sLast,  \* schemeStore.last  = <<round, sig, prev>>
          hist    \* last operation + result (history variable)

vars == <<base, aLast, sLast, hist>>
View == <<base, aLast, sLast>>

Genesis == <<0, 0, -1>>
HeadOf(b) == CHOOSE r \in DOMAIN b : \A q \in DOMAIN b : q <= r

(* appendStore.Put -> schemeStore.Put -> base.Put.  Returns the new state and the result. *)
PutOpC(st, b, chained) ==
  LET r == b[1] sig == b[2] prev == b[3]
      al == st.aLast sl == st.sLast
  IN IF r = al[1]
       THEN IF sig = al[2]
              THEN IF prev = al[3] THEN [st |-> st, res |-> "already"]
                   ELSE [st |-> st, res |-> "diffprev"]
              ELSE [st |-> st, res |-> "diffsig"]
       ELSE IF r # al[1] + 1 THEN [st |-> st, res |-> "badround"]
       ELSE \* schemeStore
            IF chained /\ prev # sl[2] THEN [st |-> st, res |-> "badprev"]
            ELSE LET stored == IF chained THEN <<r, sig, prev>> ELSE <<r, sig, -1>>
                 IN [st |-> [base |-> [x \in (DOMAIN st.base) \cup {r} |-> IF x = r THEN <<stored[2], stored[3]>> ELSE st.base[x]],
                             aLast |-> stored, sLast |-> stored],
                     res |-> "ok"]
\* NOTE: on unchained schemes schemeStore sets b.PreviousSig = nil on the caller's beacon, so
\* appendStore.last carries no previous either; a same-round re-put with any previous is "already"
\* only if the caller's previous is also empty - the harness logs what it passed.

PutOp(st, b) == PutOpC(st, b, Chained)

State == [base |-> base, aLast |-> aLast, sLast |-> sLast]

(* chainStore.tryAppend(last, new): quick check against the aggregator's own view, then Put;
   already-stored counts as success *)
TryAppendOpC(st, viewRound, b, chained) ==
  IF viewRound + 1 # b[1] THEN [st |-> st, res |-> "notappendable", ret |-> FALSE]
  ELSE LET p == PutOpC(st, b, chained) IN [st |-> p.st, res |-> p.res, ret |-> p.res \in {"ok", "already"}]
TryAppendOp(st, viewRound, b) == TryAppendOpC(st, viewRound, b, Chained)

-----------------------------------------------------------------------------
Init == /\ base = (0 :> <<0, -1>>) /\ aLast = Genesis /\ sLast = Genesis /\ hist = [op |-> "init"]

Cand == (0..MaxRound) \X Sigs \X (Sigs \cup {-1})

SyncPut(b) == LET p == PutOp(State, b) IN
  /\ base' = p.st.base /\ aLast' = p.st.aLast /\ sLast' = p.st.sLast
  /\ hist' = [op |-> "syncput", b |-> b, res |-> p.res]

AggPut(v, b) == LET p == TryAppendOp(State, v, b) IN
  /\ base' = p.st.base /\ aLast' = p.st.aLast /\ sLast' = p.st.sLast
  /\ hist' = [op |-> "tryappend", view |-> v, b |-> b, res |-> p.res]

\* restart: the stack is rebuilt from the base store (newAppendStore / NewSchemeStore read Last)
Restart == LET h == HeadOf(base) l == <<h, base[h][1], base[h][2]>> IN
  /\ aLast' = l /\ sLast' = l /\ base' = base /\ hist' = [op |-> "restart"]

Next == \/ \E b \in Cand : SyncPut(b)
        \/ \E b \in Cand, v \in 0..MaxRound : AggPut(v, b)
        \/ Restart
Spec == Init /\ [][Next]_vars

-----------------------------------------------------------------------------
(* C02 monitors *)
GapFree(b) == DOMAIN b = 0..HeadOf(b)
Linked(b) == Chained => \A r \in DOMAIN b : r > 0 => b[r][2] = b[r - 1][1]
WriteOnce(pre, post) == \A r \in DOMAIN pre : r \in DOMAIN post /\ post[r] = pre[r]
GrowsByOne(pre, post) == HeadOf(post) \in {HeadOf(pre), HeadOf(pre) + 1}

Inv_GapFree == GapFree(base)
Inv_Linked == Linked(base)
Inv_LastIsHead == aLast[1] = HeadOf(base) /\ sLast[1] = HeadOf(base) /\ aLast[2] = base[aLast[1]][1]
Act_WriteOnce == [][WriteOnce(base, base') /\ GrowsByOne(base, base')]_vars
=============================================================================
