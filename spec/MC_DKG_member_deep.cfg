SPECIFICATION CexSpecR
CONSTANTS
  Me = "p2"
  MaxEpoch = 3
  MaxTick = 1
  Rich = FALSE
  Shapes = {"keep", "swap"}
  Depth = 0
  Roles = {"p2"}
INVARIANTS TypeOK Inv_UniqueAddrs
PROPERTIES MC_C08C09 MC_FinishedStable
ACTION_CONSTRAINT Report
VIEW SimView
CONSTRAINT HonestFinished
CHECK_DEADLOCK FALSE
