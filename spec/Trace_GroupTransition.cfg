SPECIFICATION TraceSpec
CONSTANTS
  Vals = {1, 2}
INVARIANT AtEnd
CHECK_DEADLOCK FALSE
