------------------------- MODULE Trace_PartialCache -------------------------
(***************************************************************************)
(* Validates executions of the real partialCache (recorded by the overlay  *)
(* test TestVerifCache) against PartialCache.tla.  Every recorded call is  *)
(* applied with the specification's operators; the observed state is       *)
(* compared (conformance) and the monitors are evaluated on the OBSERVED    *)
(* state, which is then adopted so that the rest of the trace stays        *)
(* checkable after a divergence.                                           *)
(***************************************************************************)
EXTENDS PartialCache, Json

TraceLog == ndJsonDeserialize("trace.ndjson")

VARIABLES l,        \* next line of the trace
          alarms,   \* monitor failures observed so far
          scen      \* current scenario (from the last Reset line)

tvars == <<cache, op, l, alarms, scen>>

TraceMax == TraceLog[1].max
TraceIdx == 0..8

Range(s) == {s[k] : k \in DOMAIN s}

\* ---- observed state -> spec state
ObsRounds(e) ==
  LET Q == Range(e.sigs) IN
  [id \in {<<q[1], q[2]>> : q \in Q} |->
     [i \in {q[3] : q \in {x \in Q : <<x[1], x[2]>> = id}} |->
        (CHOOSE q \in Q : <<q[1], q[2]>> = id /\ q[3] = i)[4]]]
ObsRcvd(e) ==
  [i \in TraceIdx |->
     IF \E k \in DOMAIN e.rcvd : e.rcvd[k][1] = i
       THEN (CHOOSE x \in Range(e.rcvd) : x[1] = i)[2]
       ELSE <<>>]
Obs(e) == [rounds |-> ObsRounds(e), rcvd |-> ObsRcvd(e)]

Held(c) == {<<i, Cardinality(RoundsHolding(c, i)), Len(c.rcvd[i])>> : i \in {j \in DOMAIN c.rcvd : Len(c.rcvd[j]) > 0 \/ RoundsHolding(c, j) # {}}}

Alarm(mon, e, extra) == [mon |-> mon, scenario |-> scen, ev |-> e.ev, line |-> l, detail |-> extra]

TraceInit == /\ cache = [rounds |-> EmptyFn, rcvd |-> [i \in TraceIdx |-> <<>>]]
             /\ op = [kind |-> "init"] /\ l = 1 /\ alarms = {} /\ scen = "none"

StepReset(e) ==
  /\ e.ev = "Reset"
  /\ cache' = [rounds |-> EmptyFn, rcvd |-> [i \in TraceIdx |-> <<>>]]
  /\ scen' = e.scenario
  /\ alarms' = alarms \cup (IF e.max # TraceMax THEN {Alarm("ConstDrift", e, "max")} ELSE {})

StepAppend(e) ==
  /\ e.ev = "Append"
  /\ LET id == <<e.round, e.prev>>
         r == AppendOp(cache, e.idx, id, e.tag)
         full == "sigs" \in DOMAIN e
         post == IF full THEN Obs(e) ELSE r.c
         existed == id \in DOMAIN cache.rounds
         A1 == IF full /\ post # r.c THEN {Alarm("Conformance", e, "state differs from AppendOp")} ELSE {}
         A2 == IF r.err # e.err THEN {Alarm("Conformance", e, "error result differs")} ELSE {}
         A3 == IF {<<h[1], h[2], h[3]>> : h \in Range(e.held)} # Held(r.c)
                 THEN {Alarm("Conformance", e, "held counters differ")} ELSE {}
         A4 == IF ~e.err /\ e.len # RoundLen(post, id) THEN {Alarm("DistinctCount", e, "round length is not the number of distinct signers")} ELSE {}
         A5 == IF full /\ ~SigsBounded(post) /\ SigsBounded(cache)
                 THEN {Alarm("SigsBounded", e, IF existed THEN "join-existing-round" ELSE "create-round")} ELSE {}
         A6 == IF full /\ ~RcvdBounded(post, 3) /\ RcvdBounded(cache, 3)
                 THEN {Alarm("RcvdBounded", e, IF existed THEN "join-existing-round" ELSE "create-round")} ELSE {}
         A7 == IF full /\ ~NoCrossEviction(cache, e.idx, post) THEN {Alarm("NoCrossEviction", e, "another signer's partial was removed")} ELSE {}
         A8 == IF full /\ ~DuplicateIsNoOp(cache, e.idx, id, post) THEN {Alarm("DuplicateIsNoOp", e, "duplicate changed the cache")} ELSE {}
         \* cheap versions of the bounds on the counters that are logged at every step
         A9 == IF \E h \in Range(e.held) : h[2] > TraceMax /\ ~(\E g \in Held(cache) : g[1] = h[1] /\ g[2] > TraceMax)
                 THEN {Alarm("SigsBounded", e, IF existed THEN "join-existing-round" ELSE "create-round")} ELSE {}
         A10 == IF \E h \in Range(e.held) : h[3] > 3 * TraceMax /\ ~(\E g \in Held(cache) : g[1] = h[1] /\ g[3] > 3 * TraceMax)
                 THEN {Alarm("RcvdBounded", e, IF existed THEN "join-existing-round" ELSE "create-round")} ELSE {}
     IN /\ cache' = post
        /\ alarms' = alarms \cup A1 \cup A2 \cup A3 \cup A4 \cup A5 \cup A6 \cup A7 \cup A8 \cup A9 \cup A10
  /\ scen' = scen

StepFlush(e) ==
  /\ e.ev = "Flush"
  /\ LET c2 == FlushOp(cache, e.round)
         full == "sigs" \in DOMAIN e
         post == IF full THEN Obs(e) ELSE c2
         A1 == IF full /\ post # c2 THEN {Alarm("Conformance", e, "state differs from FlushOp")} ELSE {}
         A2 == IF full /\ ~FlushExact(cache, e.round, post) THEN {Alarm("FlushExact", e, "flush removed other rounds or kept old ones")} ELSE {}
         A3 == IF {<<h[1], h[2], h[3]>> : h \in Range(e.held)} # Held(c2)
                 THEN {Alarm("Conformance", e, "held counters differ")} ELSE {}
     IN /\ cache' = post
        /\ alarms' = alarms \cup A1 \cup A2 \cup A3
  /\ scen' = scen

\* the real call panicked (or never returned): in the daemon this is the aggregator goroutine dying on a partial
\* that a member sent.  No operator of PartialCache.tla fails, so this is never conformance.
StepPanic(e) ==
  /\ e.ev = "Panic"
  /\ alarms' = alarms \cup {Alarm("Panicked", e, e.op)}
  /\ UNCHANGED <<cache, scen>>

TraceNext ==
  /\ l <= Len(TraceLog)
  /\ LET e == TraceLog[l] IN StepReset(e) \/ StepAppend(e) \/ StepFlush(e) \/ StepPanic(e)
  /\ l' = l + 1
  /\ op' = op

TraceSpec == TraceInit /\ [][TraceNext]_tvars

\* printed once, in the last state
AtEnd == l = Len(TraceLog) + 1 =>
           /\ PrintT(<<"VP", "ALARMS", ToJson(alarms)>>)
           /\ PrintT(<<"VP", "DONE", ToJson([lines |-> Len(TraceLog)])>>)
=============================================================================
