------------------------------ MODULE RoundTime ------------------------------
(***************************************************************************)
(* Round <-> time conversion of drand (common/time.go), property C16.      *)
(*                                                                         *)
(* Two layers, both pure operators so that the trace specs (TLC for values *)
(* below 2^31, Apalache for the 64-bit region) apply them to observed      *)
(* calls of the real code:                                                 *)
(*   - the IDEAL integer definitions TimeOf / RoundAt / NextOf and the      *)
(*     relations of the statement (the monitors, Mon_...);                 *)
(*   - a line-by-line transcription of time.go on a WordBits-bit machine    *)
(*     (Code...): uint64 multiplication wraps, int64 conversion and addition *)
(*     wrap, the overflow guard is built from floor(log2(period+1)) and    *)
(*     the reserved time buffer.  WordBits = 64 / BufBits = 36 is the real  *)
(*     code; TLC explores scaled-down machines exhaustively (every period, *)
(*     genesis, round and instant of the scaled domain) to decide whether  *)
(*     the guard AS DESIGNED excludes every wrap.                          *)
(*                                                                         *)
(* Named deviation: NextRound divides in float64.  For 0 <= t-g <= 2^50    *)
(* and 1 <= p < 2^32 the rounded quotient has the same floor as the exact  *)
(* one (t-g = k*p - m with m >= 1 is at distance >= 1/p from k, half an    *)
(* ulp at k <= 2^50/p is <= 2^-3/p), so the transcription uses \div; the    *)
(* statement does not quantify beyond that domain and neither do we.       *)
(* Round 0 is the fixed genesis beacon, it is not scheduled: the code      *)
(* returns the genesis time for it (as for round 1) and "strictly          *)
(* increasing" is stated for the scheduled rounds r >= 1.                  *)
(***************************************************************************)
EXTENDS Integers, Sequences

CONSTANTS
  \* @type: Int;
  WordBits,      \* 64 in the code
  \* @type: Int;
  BufBits,       \* timeBufferBits = 36 in the code
  \* @type: Int => Int;
  Pow2(_),       \* 2^k.  TLC: 2^k; Apalache: a literal table (z3 has no variable exponent and
                 \* literal tables fold at preprocessing); pinned by PowOK
  \* @type: Int => Int;
  FloorLog2(_)   \* int(math.Log2(x)) for x >= 1.  TLC: CHOOSE; Apalache: literal chain; pinned by LogOK

VARIABLES
  \* @type: Int;
  p,         \* period in whole seconds
  \* @type: Int;
  g,         \* genesis time
  \* @type: Str;
  kind,      \* last call: "init" | "TOR" | "CUR"
  \* @type: Int;
  arg,       \* its argument (round for TOR, instant for CUR)
  \* @type: Seq(Int);
  res        \* what the calls returned (see CallTOR / CallCUR)

vars == <<p, g, kind, arg, res>>

\* what the two constant operators must be (checked by TLC in every configuration and by
\* Apalache for the 64-bit tables)
PowOK == Pow2(0) = 1 /\ \A k \in 0..(WordBits - 1) : Pow2(k + 1) = 2 * Pow2(k)
LogOK(x) == Pow2(FloorLog2(x)) <= x /\ x < Pow2(FloorLog2(x) + 1)

MaxU == Pow2(WordBits) - 1          \* math.MaxUint64
MaxI == Pow2(WordBits - 1) - 1      \* math.MaxInt64
Buf == Pow2(BufBits)                \* maxTimeBuffer
ErrVal == MaxI - Buf                \* TimeOfRoundErrorValue (documented error value)

-----------------------------------------------------------------------------
(* Ideal definitions                                                         *)

TimeOf(pp, gg, r) == gg + (r - 1) * pp              \* scheduled time of round r >= 1
RoundAt(pp, gg, t) == ((t - gg) \div pp) + 1        \* current round at t >= gg
\* @type: (Int, Int, Int) => Seq(Int);
NextOf(pp, gg, t) == <<RoundAt(pp, gg, t) + 1, TimeOf(pp, gg, RoundAt(pp, gg, t) + 1)>>

-----------------------------------------------------------------------------
(* Machine arithmetic of a WordBits-bit machine                              *)

U(x) == x % (MaxU + 1)                                              \* uint64 result
S(x) == LET y == x % (MaxU + 1) IN IF y > MaxI THEN y - (MaxU + 1) ELSE y   \* int64 result / conversion

(* round >= math.MaxUint64 >> (int(periodBits) + 2)                          *)
Guard(pp) == MaxU \div Pow2(FloorLog2(pp + 1) + 2)

(* TimeOfRound(period, genesis, round)                                       *)
CodeTimeOfRound(pp, gg, r) ==
  IF r = 0 THEN gg
  ELSE IF pp < 0 THEN ErrVal
  ELSE IF r >= Guard(pp) THEN ErrVal
  ELSE LET delta == U((r - 1) * pp)
           val == S(gg + S(delta))
       IN IF val > ErrVal THEN ErrVal ELSE val

(* NextRound(now, period, genesis)                                           *)
\* @type: (Int, Int, Int) => Seq(Int);
CodeNextRound(t, pp, gg) ==
  IF t < gg THEN <<1, gg>>
  ELSE LET n == U(((t - gg) \div pp) + 1)
       IN <<U(n + 1), S(gg + S(U(n * pp)))>>

(* CurrentRound(now, period, genesis)                                        *)
CodeCurrentRound(t, pp, gg) ==
  LET n == CodeNextRound(t, pp, gg)[1] IN IF n <= 1 THEN n ELSE n - 1

-----------------------------------------------------------------------------
(* Monitors: the relations of the statement, over observed values only       *)

\* the current round is THE round whose scheduled time is at or before t with
\* the next round's time after t (exact integer definition) ...
Mon_CurrentUnique(pp, gg, t, cur) ==
  cur >= 1 /\ TimeOf(pp, gg, cur) <= t /\ t < TimeOf(pp, gg, cur + 1)
\* ... and the same with the scheduled times the code itself reports
Mon_CurrentSchedule(t, tcur, tnext) == tcur <= t /\ t < tnext

\* the next-round computation returns that round plus one with exactly its scheduled time
Mon_Next(pp, gg, cur, nxt, ntime, tnext) ==
  nxt = cur + 1 /\ ntime = TimeOf(pp, gg, nxt) /\ ntime = tnext

\* scheduled time is strictly increasing in the (scheduled) round
Mon_Monotone(r, out, out1) == (r >= 1 /\ out # ErrVal /\ out1 # ErrVal) => out < out1

\* a round yields its exact time, or the documented error value; never a wrapped or
\* negative time.  The error value is allowed from the coded (conservative) guard on
\* and demanded where the true time is beyond the documented limit ("TimeOfRound will
\* stay below this buffer": a time inside the reserved buffer wraps as soon as time.Unix
\* converts it).
Mon_NoWrap(pp, gg, r, out) ==
  \/ r = 0 /\ out = gg
  \/ r >= 1 /\ out = TimeOf(pp, gg, r) /\ out <= ErrVal
  \/ r >= 1 /\ out = ErrVal /\ (r >= Guard(pp) \/ TimeOf(pp, gg, r) > ErrVal)

-----------------------------------------------------------------------------
(* Judging one observed call: conformance with the transcription and the     *)
(* monitors; the result is the set of names that failed.  Scalar arguments    *)
(* only, so that literal applications fold during Apalache's preprocessing.   *)

\* TimeOfRound(p, g, r) returned out and TimeOfRound(p, g, r+1) returned out1
JudgeTOR(pp, gg, r, out, out1) ==
  (IF out # CodeTimeOfRound(pp, gg, r) \/ out1 # CodeTimeOfRound(pp, gg, r + 1) THEN {"Conformance"} ELSE {})
  \union (IF ~Mon_NoWrap(pp, gg, r, out) \/ out < 0 THEN {"Mon_NoWrap"} ELSE {})
  \union (IF ~Mon_NoWrap(pp, gg, r + 1, out1) \/ out1 < 0 THEN {"Mon_NoWrap"} ELSE {})
  \union (IF ~Mon_Monotone(r, out, out1) THEN {"Mon_Monotone"} ELSE {})

\* at instant t: CurrentRound = cur, NextRound = (nxt, ntime), TimeOfRound(cur) = tcur,
\* TimeOfRound(cur+1) = tnext
JudgeCUR(pp, gg, t, cur, nxt, ntime, tcur, tnext) ==
  (IF cur # CodeCurrentRound(t, pp, gg) \/ nxt # CodeNextRound(t, pp, gg)[1] \/ ntime # CodeNextRound(t, pp, gg)[2]
      \/ tcur # CodeTimeOfRound(pp, gg, cur) \/ tnext # CodeTimeOfRound(pp, gg, cur + 1)
     THEN {"Conformance"} ELSE {})
  \union (IF ~Mon_CurrentUnique(pp, gg, t, cur) THEN {"Mon_CurrentUnique"} ELSE {})
  \union (IF ~Mon_CurrentSchedule(t, tcur, tnext) THEN {"Mon_CurrentSchedule"} ELSE {})
  \union (IF ~Mon_Next(pp, gg, cur, nxt, ntime, tnext) THEN {"Mon_Next"} ELSE {})

(* The same below 2^31, where TLC can compute but cannot represent the 64-bit   *)
(* constants: for p, r+1 <= 2^30 and g, times < 2^31 neither the guard nor the  *)
(* buffer can be reached (Lemma_SmallIsExact, decided by Apalache on the 64-bit *)
(* constants), so the transcription IS the ideal definition, the error value    *)
(* cannot be a legitimate result and Mon_NoWrap reduces to exactness.           *)
Mon_NoWrapSmall(pp, gg, r, out) == IF r = 0 THEN out = gg ELSE out = TimeOf(pp, gg, r)
Mon_MonotoneSmall(r, out, out1) == r >= 1 => out < out1

JudgeSmallTOR(pp, gg, r, out, out1) ==
  (IF ~Mon_NoWrapSmall(pp, gg, r, out) \/ ~Mon_NoWrapSmall(pp, gg, r + 1, out1) \/ out < 0 \/ out1 < 0
     THEN {"Mon_NoWrap"} ELSE {})
  \union (IF ~Mon_MonotoneSmall(r, out, out1) THEN {"Mon_Monotone"} ELSE {})

JudgeSmallCUR(pp, gg, t, cur, nxt, ntime, tcur, tnext) ==
  (IF cur # RoundAt(pp, gg, t) \/ nxt # NextOf(pp, gg, t)[1] \/ ntime # NextOf(pp, gg, t)[2] THEN {"Conformance"} ELSE {})
  \union (IF ~Mon_CurrentUnique(pp, gg, t, cur) THEN {"Mon_CurrentUnique"} ELSE {})
  \union (IF ~Mon_CurrentSchedule(t, tcur, tnext) THEN {"Mon_CurrentSchedule"} ELSE {})
  \union (IF ~Mon_Next(pp, gg, cur, nxt, ntime, tnext) THEN {"Mon_Next"} ELSE {})

-----------------------------------------------------------------------------
(* The calls as a state machine (one action per call; the linearization      *)
(* point is the return)                                                      *)

CONSTANTS
  \* @type: Set(Int);
  Periods,
  \* @type: Set(Int);
  Geneses,
  \* @type: Set(Int);
  RoundArgs,
  \* @type: Set(Int);
  Elapsed      \* instants are genesis + e, e \in Elapsed

\* @type: (Int, Int, Int) => Seq(Int);
TORResult(pp, gg, r) == <<CodeTimeOfRound(pp, gg, r), CodeTimeOfRound(pp, gg, r + 1)>>
\* @type: (Int, Int, Int) => Seq(Int);
CURResult(pp, gg, t) ==
  LET cur == CodeCurrentRound(t, pp, gg)
      nx == CodeNextRound(t, pp, gg)
  IN <<cur, nx[1], nx[2], CodeTimeOfRound(pp, gg, cur), CodeTimeOfRound(pp, gg, cur + 1)>>

Init == p \in Periods /\ g \in Geneses /\ kind = "init" /\ arg = 0 /\ res = <<>>

CallTOR(r) == kind' = "TOR" /\ arg' = r /\ res' = TORResult(p, g, r) /\ UNCHANGED <<p, g>>
CallCUR(t) == kind' = "CUR" /\ arg' = t /\ res' = CURResult(p, g, t) /\ UNCHANGED <<p, g>>

\* the functions are pure: a call's result does not depend on earlier calls, so every
\* behaviour is one call on a fresh (period, genesis) - no quadratic revisiting
Next == /\ kind = "init"
        /\ \/ \E r \in RoundArgs : CallTOR(r)
           \/ \E e \in Elapsed : CallCUR(g + e)

Spec == Init /\ [][Next]_vars

\* the transcription of the code satisfies the monitors (the design question TLC decides)
Inv_CurrentUnique == kind = "CUR" => Mon_CurrentUnique(p, g, arg, res[1])
Inv_CurrentSchedule == kind = "CUR" => Mon_CurrentSchedule(arg, res[4], res[5])
Inv_Next == kind = "CUR" => Mon_Next(p, g, res[1], res[2], res[3], res[5])
Inv_Monotone == kind = "TOR" => Mon_Monotone(arg, res[1], res[2])
Inv_NoWrap == kind = "TOR" => Mon_NoWrap(p, g, arg, res[1]) /\ res[1] >= 0
\* the judging operators accept what the transcription produces
Inv_Judge == /\ kind = "TOR" => JudgeTOR(p, g, arg, res[1], res[2]) = {}
             /\ kind = "CUR" => JudgeCUR(p, g, arg, res[1], res[2], res[3], res[4], res[5]) = {}
Inv_JudgeSmall == /\ kind = "TOR" => JudgeSmallTOR(p, g, arg, res[1], res[2]) = {}
                  /\ kind = "CUR" => JudgeSmallCUR(p, g, arg, res[1], res[2], res[3], res[4], res[5]) = {}
Inv_Tables == PowOK /\ LogOK(p + 1)
\* the ideal definitions agree with the transcription wherever no guard applies
Inv_Ideal == /\ kind = "CUR" => res[1] = RoundAt(p, g, arg) /\ <<res[2], res[3]>> = NextOf(p, g, arg)
             /\ (kind = "TOR" /\ arg >= 1 /\ res[1] # ErrVal) => res[1] = TimeOf(p, g, arg)
\* uniqueness proper: no other round of the explored range satisfies the defining relation
Inv_OnlyOne == kind = "CUR" =>
                 \A r \in RoundArgs : (r >= 1 /\ TimeOf(p, g, r) <= arg /\ arg < TimeOf(p, g, r + 1)) => r = res[1]
=============================================================================
