SPECIFICATION Spec
CONSTANTS
  Max = 2
  Idx = {1, 2, 3}
  Rounds = {1, 2}
  Prevs = {0, 1}
INVARIANTS TypeOK Inv_Accounted Inv_SigsBounded Inv_RcvdBounded
PROPERTIES Act_NoCrossEviction Act_DuplicateIsNoOp
VIEW View
