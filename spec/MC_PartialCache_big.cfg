SPECIFICATION Spec
CONSTANTS
  Max = 2
  Idx = {1, 2, 3}
  Rounds = {1, 2}
  Prevs = {0, 1}
INVARIANTS TypeOK Inv_Accounted
PROPERTIES Act_NoCrossEviction Act_DuplicateIsNoOp
VIEW View
CONSTRAINT RcvdCut
