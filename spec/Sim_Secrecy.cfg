SPECIFICATION SimSpec
CONSTANTS
  Nodes = {1}
  Peers = {1, 2, 3}
  MaxEpoch = 2
  Umasks = {18, 2, 63, 0}
  DkgDbPerm = 384
  ChainDbPerm = 432
  PreModes = {420, 438, 384, 416}
  Depth = 14
CHECK_DEADLOCK FALSE
