SPECIFICATION LiveSpecF
CONSTANTS
  n1 = n1
  n2 = n2
  n3 = n3
  Nodes = {n1, n2, n3}
  Thr = 2
  P = 2
  MaxRound = 2
  MaxSkew = 1
  SyncDelivery = TRUE
  Faults = 1
PROPERTIES Live
CHECK_DEADLOCK FALSE
VIEW View
