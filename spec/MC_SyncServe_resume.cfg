SPECIFICATION Spec
CONSTANTS
  Streams = {1}
  SameAddr = FALSE
  Writers = {1}
  Q = 2
  InitHead = 2
  MaxR = 8
  Froms = {0}
  Backend = "bolt"
  Buf = 100
  Remap = FALSE
  Faults = {"stall", "resume"}
  MaxFaults = 1
INVARIANTS TypeOK Mon_NoRepeat Mon_InOrder Mon_NoGap Mon_FromStart Mon_LiveComplete
CHECK_DEADLOCK FALSE
