SPECIFICATION Spec
CONSTANTS
  Peers = {1, 2, 3}
  MaxR = 4
  PT <- PTRepair
  Modes = {"repair"}
  ChainedSet = {TRUE, FALSE}
  Starts = {3}
  Targets = {0, 3, 4}
  Corruptions <- CorrQuick
  NT = 1
  FollowRetries = TRUE
  FollowAppend = TRUE
  ResyncChecksRound = TRUE
  ResyncDeletesFirst = FALSE
  CheckZeroIsClock = TRUE
  Aborts = FALSE
  PinsOperatorHash = TRUE
  MaxAgg = 0
  QCap = 1
  Linger = FALSE
  History = TRUE
  Eager = FALSE
INVARIANTS TypeOK Inv_OnlyVerifiedInOrder Inv_NothingFromLiars Inv_Chain Inv_RepairUntouched Inv_RepairKeepsHead
VIEW View
CHECK_DEADLOCK FALSE
