-------------------------------- MODULE Codec --------------------------------
(***************************************************************************)
(* Persisted and transmitted state of drand round-trips (C20).             *)
(*                                                                         *)
(* A value is an abstract record: the STRUCTURE of a group file, key pair, *)
(* identity, private share, chain info, key-generation database record or  *)
(* beacon - which optional parts are present, how many list elements,      *)
(* which status - while the byte content (points, scalars, addresses,      *)
(* signatures) is concretised by the Go harness per scheme from labels and *)
(* reported back as one boolean `rest` (every content field of the decoded *)
(* value equals the original's).  An action is one trip of a value through *)
(* one encoding path of the real code:                                     *)
(*   group    : toml  (Group.TOML -> BurntSushi text -> Group.FromTOML)    *)
(*              file  (fileStore.SaveGroup / LoadGroup)                    *)
(*              proto (Group.ToProto -> wire bytes -> GroupFromProto)      *)
(*   pair     : toml (private part), file (SaveKeyPair / LoadKeyPair)      *)
(*   identity : toml, proto                                                *)
(*   share    : toml, file (SaveShare / LoadShare)                         *)
(*   info     : json (Info.MarshalJSON/UnmarshalJSON), proto (ToProto ->   *)
(*              wire -> InfoFromProto), hexjson (ToJSON / InfoFromJSON)    *)
(*   dbstate  : toml (DBState.TOML -> text -> DBStateTOML.FromTOML),       *)
(*              boltcur / boltfin (BoltStore.SaveCurrent/GetCurrent,       *)
(*              SaveFinished/GetFinished)                                  *)
(*   beacon   : json (Beacon.Marshal/Unmarshal), proto (beaconToProto ->   *)
(*              wire -> protoToBeacon)                                     *)
(* On the paths that persist under a fixed name (file, boltcur, boltfin) a  *)
(* trip may first save another value of the same type under that name.     *)
(* The expected result of a trip is Normalise(v, path): the identity up to *)
(* the canonicalisations the code documents ("" and "default" are one id;  *)
(* an absent genesis seed is the group hash; an empty byte string and an   *)
(* absent one are the same), with the same hash.  Malformed group          *)
(* encodings (threshold outside [MinimumT(n), n], unknown scheme) must be  *)
(* rejected by every group decoder.                                        *)
(***************************************************************************)
EXTENDS Naturals, Sequences, FiniteSets, TLC

CONSTANTS MaxNodes,     \* group sizes explored: 1..MaxNodes
          Types         \* which value types this configuration explores

VARIABLES val,   \* the abstract value
          op     \* the last trip: [kind, path, result]

vars == <<val, op>>

DefaultId == "default"
IdOrDefault(id) == IF id = "" \/ id = DefaultId THEN DefaultId ELSE id
MinimumT(n) == (n \div 2) + 1

-----------------------------------------------------------------------------
(* Value sets (the presence/absence lattice x statuses)                      *)

Bit == {0, 1}
\* node / participant addresses (host:port strings; every codec must hand back the string it was
\* given): a host name, an IPv4 literal, bracketed IPv6 literals (plain, loopback with a short
\* port, with a zone), a host name with a trailing dot, in upper case, port 0, a port with
\* leading zeros.  The whole structural lattice is explored with "host"; every other kind with
\* representative structures.
AddrKinds == {"host", "ipv4", "ipv6", "ipv6loop", "ipv6zone", "dot", "upper", "port0", "lead0"}
OtherAddrs == AddrKinds \ {"host"}
Groups == [type : {"group"}, n : 1..MaxNodes, thr : {"min", "max"}, transition : Bit, seed : {"none", "S"},
           catchup : Bit, dist : Bit, id : {"", "default", "a"}, sig : Bit, addr : {"host"}]
          \cup [type : {"group"}, n : 1..MaxNodes, thr : {"min"}, transition : {1}, seed : {"S"},
                catchup : {1}, dist : {1}, id : {"a"}, sig : {1}, addr : OtherAddrs]
Pairs == [type : {"pair"}, sig : Bit, addr : AddrKinds]
Identities == [type : {"identity"}, sig : Bit, addr : AddrKinds]
Shares == [type : {"share"}, commits : 1..MaxNodes, index : 0..(MaxNodes - 1)]
Infos == [type : {"info"}, id : {"", "default", "a"}, seed : {"S", "L"}]
Statuses == 0..11    \* Fresh .. Failed (internal/dkg/state_machine.go)
DBStates == [type : {"dbstate"}, status : Statuses, leader : Bit, remaining : Bit, joining : Bit, leaving : Bit,
             acceptors : Bit, rejectors : Bit, seed : Bit, fgroup : Bit, share : Bit, timeout : Bit, addr : {"host"}]
            \cup [type : {"dbstate"}, status : {1, 7}, leader : {1}, remaining : {1}, joining : {1}, leaving : {1},
                  acceptors : {1}, rejectors : {1}, seed : {1}, fgroup : Bit, share : {1}, timeout : {1}, addr : OtherAddrs]
Beacons == [type : {"beacon"}, prev : {"absent", "empty", "present"}, sig : {"short", "g1", "g2", "zeros"},
            round : {"zero", "one", "max"}]
\* malformed group encodings
BadGroups == [type : {"badgroup"}, n : 1..MaxNodes, kind : {"thr_zero", "thr_low", "thr_high", "scheme_unknown"}, dist : Bit]

ValuesOf(t) == CASE t = "group" -> Groups [] t = "pair" -> Pairs [] t = "identity" -> Identities
                 [] t = "share" -> Shares [] t = "info" -> Infos [] t = "dbstate" -> DBStates
                 [] t = "beacon" -> Beacons [] t = "badgroup" -> BadGroups
AllValues == UNION {ValuesOf(t) : t \in Types}

PathsOf(t) == CASE t = "group" -> {"toml", "file", "proto"}
                [] t = "pair" -> {"toml", "file"}
                [] t = "identity" -> {"toml", "proto"}
                [] t = "share" -> {"toml", "file"}
                [] t = "info" -> {"json", "proto", "hexjson"}
                [] t = "dbstate" -> {"toml", "boltcur", "boltfin"}
                [] t = "beacon" -> {"json", "proto"}
                [] t = "badgroup" -> {"toml", "file", "proto", "dbstate"}

\* Paths that persist under a fixed name (file, database key): what is read back must be what
\* was written LAST, whatever the same name held before.  Overs(t) are the values saved first
\* in such trips (all shares and pairs; the largest group / database record, so that the new
\* encoding is shorter than the old one).
NoValue == [type |-> "none"]
StorePaths == {"file", "boltcur", "boltfin"}
Largest(t) ==
  CASE t = "group" -> [type |-> "group", n |-> MaxNodes, thr |-> "max", transition |-> 1, seed |-> "S",
                       catchup |-> 1, dist |-> 1, id |-> "default", sig |-> 1, addr |-> "host"]
    [] t = "dbstate" -> [type |-> "dbstate", status |-> 7, leader |-> 1, remaining |-> 1, joining |-> 1, leaving |-> 1,
                         acceptors |-> 1, rejectors |-> 1, seed |-> 1, fgroup |-> 1, share |-> 1, timeout |-> 1, addr |-> "host"]
Overs(t) == CASE t = "share" -> Shares [] t = "pair" -> Pairs
              [] t = "group" -> {Largest("group")} [] t = "dbstate" -> {Largest("dbstate")}
              [] OTHER -> {}
OversOn(t, path) == {NoValue} \cup (IF path \in StorePaths THEN Overs(t) ELSE {})

\* concrete threshold of a group value / a malformed one
ThrOf(v) == IF v.type = "group" THEN (IF v.thr = "min" THEN MinimumT(v.n) ELSE v.n)
            ELSE CASE v.kind = "thr_zero" -> 0
                   [] v.kind = "thr_low" -> MinimumT(v.n) - 1
                   [] v.kind = "thr_high" -> v.n + 1
                   [] OTHER -> MinimumT(v.n)
ThrInRange(n, t) == t >= MinimumT(n) /\ t <= n

-----------------------------------------------------------------------------
(* Expected result of a trip                                                 *)

\* what decode(encode(v)) must project to (the harness adds rest = TRUE when every content
\* field - keys, scalars, addresses, indices, times, periods, scheme - is equal)
Normalise(v, path) ==
  CASE v.type = "group" ->
         [v EXCEPT !.id = IdOrDefault(@),                         \* FromTOML / ToProto canonicalise the id
                   !.seed = IF @ = "none" THEN "hash" ELSE @]     \* TOML()/ToProto write GetGenesisSeed()
    [] v.type = "beacon" ->
         [v EXCEPT !.prev = IF @ = "empty" THEN "absent" ELSE @]  \* no bytes = no previous signature
    [] OTHER -> v

\* abstract hash of the hashed types (as in Hashes.tla: the id enters canonically, an absent
\* seed is the group hash itself)
AbsHash(v) ==
  CASE v.type = "group" -> <<v.n, v.thr, v.transition, v.dist, IdOrDefault(v.id)>>
    [] v.type = "info" -> <<IdOrDefault(v.id), v.seed>>
    [] OTHER -> <<>>
Hashed(v) == v.type \in {"group", "info"}

-----------------------------------------------------------------------------
(* Monitors (over the observed projection of the decoded value)              *)

\* p = projection of the decoded value (abstract fields), rest = content equal, err = decode error
Mon_RoundTripIdentity(v, path, err, p, rest) == err = "" /\ rest /\ p = Normalise(v, path)
Mon_RoundTripHash(v, err, hasheq) == (Hashed(v) /\ err = "") => hasheq
Mon_MalformedRejected(v, accepted) == ~accepted

\* which fields of the projection differ from the expectation (diagnosis)
DiffFields(v, path, p) ==
  LET n == Normalise(v, path) IN
  IF DOMAIN p # DOMAIN n THEN {"<shape>"} ELSE {f \in DOMAIN n : p[f] # n[f]}

-----------------------------------------------------------------------------
(* State machine: every value of the lattice, every path                     *)

Init == val \in AllValues /\ op = [kind |-> "init"]

\* (the result does not depend on `over`, the value the same name held before)
RoundTrip(path, over) ==
  /\ val.type # "badgroup" /\ op.kind = "init"
  /\ op' = [kind |-> "roundtrip", path |-> path, over |-> over, result |-> Normalise(val, path)]
  /\ UNCHANGED val

DecodeMalformed(path) ==
  /\ val.type = "badgroup" /\ op.kind = "init"
  /\ op' = [kind |-> "malformed", path |-> path, result |-> "Reject"]
  /\ UNCHANGED val

Next == \E path \in PathsOf(val.type) :
          \/ \E over \in OversOn(val.type, path) : RoundTrip(path, over)
          \/ DecodeMalformed(path)

Spec == Init /\ [][Next]_vars

\* design-level: the expected results are canonical forms with the original's hash, and the
\* malformed catalogue is exactly "out of range or unknown scheme"
Inv_Idempotent == op.kind = "roundtrip" => Normalise(op.result, op.path) = op.result
Inv_KeepsHash == op.kind = "roundtrip" => AbsHash(op.result) = AbsHash(val)
Inv_SameType == op.kind = "roundtrip" => op.result.type = val.type /\ DOMAIN op.result = DOMAIN val
Inv_ValidInRange == val.type = "group" => ThrInRange(val.n, ThrOf(val))
Inv_MalformedOutOfRange ==
  val.type = "badgroup" => (val.kind = "scheme_unknown" \/ ~ThrInRange(val.n, ThrOf(val)))
=============================================================================
