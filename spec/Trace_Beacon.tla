---------------------------- MODULE Trace_Beacon ----------------------------
(***************************************************************************)
(* Validates executions of REAL beacon Handlers (in-memory network harness *)
(* TestVerifNet: real tBLS, fake clocks, harness-scheduled delivery, gates) *)
(* against the network-level specification.  Events are consumed in their  *)
(* linearization order; the observed values are applied to the abstract    *)
(* state (store contents, valid partials that reached a node, clocks, live *)
(* epoch) and every monitor of C01..C05 and C07 is evaluated by TLC in     *)
(* each step.  Monitor failures accumulate in `alarms` (printed at the     *)
(* end) so that one known deviation does not hide a different violation.   *)
(* The arithmetic (TimeOf / RoundAt / window / threshold) is the one of    *)
(* Beacon.tla, instantiated with the period logged by the scenario.        *)
(***************************************************************************)
EXTENDS Integers, Sequences, FiniteSets, TLC, Json

TraceLog == ndJsonDeserialize("trace.ndjson")

VARIABLES l, alarms, cfg,
          clk,      \* node -> last known clock (seconds since genesis)
          store,    \* node -> [round -> <<sigd, prevd>>]
          got,      \* node -> set of <<round, prevd, idx>> valid partials accepted by the node
          signed,   \* node -> set of rounds the node broadcast a partial for
          lastTick, \* node -> [round, headAtTick]
          epochOf,  \* node -> epoch whose share the node signs with (observed)
          epochs,   \* epoch -> [t, tround, members]
          upN,      \* node -> BOOLEAN
          healedAt, \* clock (max) at the last Heal/Start event, -1 if none pending
          lastLive, \* the previous live Quiesce record of the scenario ([set |-> FALSE] if none)
          reg       \* <<node, epoch>> -> stored head of the node when TransitionNewGroup was registered

tvars == <<l, alarms, cfg, clk, store, got, signed, lastTick, epochOf, epochs, upN, healedAt, reg, lastLive>>

NodesT == 0..7
EmptyFn == [x \in {} |-> 0]
Range(s) == {s[k] : k \in DOMAIN s}

Period == cfg.period
TimeOf(r) == (r - 1) * Period
RoundAt(t) == IF t < 0 THEN 0 ELSE (t \div Period) + 1
HeadOf(st) == IF DOMAIN st = {} THEN -1 ELSE CHOOSE r \in DOMAIN st : \A q \in DOMAIN st : q <= r
ThrOf(n) == IF epochOf[n] \in DOMAIN epochs THEN epochs[epochOf[n]].t ELSE cfg.t

\* C07: the epoch whose share must sign round r at node n: the latest epoch that n belongs to
\* and whose transition round is <= r (epoch 0 has transition round 0).
\* The vault switches when the first beacon of round >= tround-1 is stored AFTER the registration
\* (TransitionNewGroup); registered with stored head h, the new share therefore signs from
\* max(tround, h+2) on.  A node started directly with an epoch (joiner, restart) uses it from the start.
EffT(n, x) == IF x = 0 THEN 0
              ELSE IF <<n, x>> \in DOMAIN reg
                     THEN (IF epochs[x].tround > reg[<<n, x>>] + 2 THEN epochs[x].tround ELSE reg[<<n, x>>] + 2)
                     ELSE epochs[x].tround
DueEpoch(n, r) == LET E == {x \in DOMAIN epochs : n \in epochs[x].members /\ EffT(n, x) <= r}
                  IN IF E = {} THEN -1 ELSE CHOOSE x \in E : \A y \in E : y <= x

Alarm(mon, e, detail) == [mon |-> mon, scenario |-> cfg.scenario, ev |-> e.ev, line |-> l, detail |-> detail]
If(c, S) == IF c THEN S ELSE {}

Blank == /\ clk = [n \in NodesT |-> 0] /\ store = [n \in NodesT |-> EmptyFn]
         /\ got = [n \in NodesT |-> {}] /\ signed = [n \in NodesT |-> {}]
         /\ lastTick = [n \in NodesT |-> [round |-> 0, cause |-> "none"]]
         /\ epochOf = [n \in NodesT |-> 0] /\ epochs = EmptyFn /\ upN = [n \in NodesT |-> FALSE]
         /\ healedAt = -1 /\ reg = EmptyFn /\ lastLive = [set |-> FALSE]

TraceInit == /\ l = 1 /\ alarms = {} /\ cfg = [scenario |-> "none", period |-> 1, t |-> 1, n |-> 1, chained |-> FALSE, catchup |-> 1]
             /\ Blank

Keep(vs) == UNCHANGED vs

-----------------------------------------------------------------------------
StepInit(e) ==
  /\ e.ev = "Init"
  /\ cfg' = [scenario |-> e.scenario, period |-> e.period, t |-> e.t, n |-> e.n, chained |-> e.chained,
             catchup |-> e.catchup, backend |-> e.backend]
  /\ clk' = [n \in NodesT |-> e.start] /\ store' = [n \in NodesT |-> EmptyFn]
  /\ got' = [n \in NodesT |-> {}] /\ signed' = [n \in NodesT |-> {}]
  /\ lastTick' = [n \in NodesT |-> [round |-> 0, cause |-> "none"]]
  /\ epochOf' = [n \in NodesT |-> 0]
  /\ epochs' = (0 :> [t |-> e.t, tround |-> 0, members |-> Range(e.group)])
  /\ upN' = [n \in NodesT |-> FALSE] /\ healedAt' = -1 /\ reg' = EmptyFn /\ lastLive' = [set |-> FALSE]
  /\ alarms' = alarms

StepClock(e) ==
  /\ e.ev = "Clock"
  /\ clk' = [clk EXCEPT ![e.node] = e.now]
  /\ alarms' = alarms
  /\ Keep(<<cfg, store, got, signed, lastTick, epochOf, epochs, upN, healedAt, reg, lastLive>>)

StepTick(e) ==
  /\ e.ev = "Tick"
  /\ lastTick' = [lastTick EXCEPT ![e.node] = [round |-> e.round, cause |-> "tick"]]
  \* ticker.go: a tick carries the round of the clock
  /\ alarms' = alarms \cup If(e.round > RoundAt(e.clock), {Alarm("TickRound", e, "tick carries a round beyond the clock")})
  /\ Keep(<<cfg, clk, store, got, signed, epochOf, epochs, upN, healedAt, reg, lastLive>>)

\* C04: an honest partial for round r leaves the node only at or after TimeOf(r).
\* The named deviation (F8): the run loop handles a tick of round c when the stored head is already
\* >= c and signs head+1 at once.
EarlyDetail(n, r) ==
  IF lastTick[n].cause = "tick" /\ lastTick[n].round > 0 /\ HeadOf(store[n]) >= lastTick[n].round /\ r = HeadOf(store[n]) + 1
    THEN "tick-handled-with-head-at-or-beyond-ticked-round"
    ELSE "other"

StepBcast(e) ==
  /\ e.ev = "Bcast"
  /\ signed' = [signed EXCEPT ![e.node] = @ \cup {e.round}]
  /\ alarms' = alarms \cup If(e.clock < TimeOf(e.round), {Alarm("NoEarlyPartial", e, EarlyDetail(e.node, e.round))})
  /\ Keep(<<cfg, clk, store, got, lastTick, epochOf, epochs, upN, healedAt, reg, lastLive>>)

StepSend(e) ==
  /\ e.ev = "Send"
  /\ alarms' = alarms \cup If(e.clock < TimeOf(e.round), {Alarm("NoEarlyPartial", e, EarlyDetail(e.from, e.round))})
                      \* (a joiner or restarted node may send new-share partials early: they simply do not count)
                      \cup If("sigEpoch" \in DOMAIN e /\ e.sigEpoch >= 0 /\ DueEpoch(e.from, e.round) >= 0 /\ e.sigEpoch < DueEpoch(e.from, e.round),
                              {Alarm("WrongShareEpoch", e, "old share used at or after the transition round")})
  /\ Keep(<<cfg, clk, store, got, signed, lastTick, epochOf, epochs, upN, healedAt, reg, lastLive>>)

\* a partial is handed to ProcessPartialBeacon (logged before the call)
StepDeliver(e) ==
  /\ e.ev = "Deliver"
  /\ got' = IF e.valid /\ e.member /\ ~e.own THEN [got EXCEPT ![e.to] = @ \cup {<<e.round, e.prevd, e.idx, e.epoch>>}] ELSE got
  /\ epochOf' = IF e.epoch >= 0 THEN [epochOf EXCEPT ![e.to] = e.epoch] ELSE epochOf
  /\ alarms' = alarms
  /\ Keep(<<cfg, clk, store, signed, lastTick, epochs, upN, healedAt, reg, lastLive>>)

\* ProcessPartialBeacon returned: what may have reached the aggregator
StepRecv(e) ==
  /\ e.ev = "Recv"
  /\ LET acc == "accepted" \in DOMAIN e /\ e.accepted
         A1 == If(acc /\ ~e.valid, {Alarm("AcceptedInvalidPartial", e, e.kind)})
         A2 == If(acc /\ ~e.member, {Alarm("AcceptedNonMember", e, e.kind)})
         A3 == If(acc /\ e.own, {Alarm("AcceptedOwnIndex", e, e.kind)})
         A4 == If(acc /\ e.round > RoundAt(e.toClock) + 1, {Alarm("AcceptedFuturePartial", e, e.kind)})
         A5 == If(e.res \in {"blocked", "panic"}, {Alarm("HandlerDidNotReturn", e, e.res)})
         \* Beacon.tla (RecvPartial): a partial that is valid under the epoch due for its round, comes from another member,
         \* is for a round above the stored head and not beyond the next round, reaches the aggregator.  A node that turns
         \* such a partial away does not by itself break a listed property (the chain goes on through the others and
         \* sync), so this is conformance, not a verdict.
         A6 == If(~acc /\ "idx" \in DOMAIN e /\ e.res \in {"ok", "err"} /\ e.valid /\ e.member /\ ~e.own /\ e.epoch >= 0
                  /\ e.epoch = DueEpoch(e.to, e.round) /\ epochOf[e.to] = e.epoch
                  /\ e.round > HeadOf(store[e.to]) /\ e.round <= RoundAt(e.toClock) + 1 /\ upN[e.to],
                  {Alarm("Conformance", e, "a valid in-window partial of another member was not handed to the aggregator")})
     IN /\ alarms' = alarms \cup A1 \cup A2 \cup A3 \cup A4 \cup A5 \cup A6
        /\ got' = IF ~acc /\ "idx" \in DOMAIN e /\ e.valid /\ e.member /\ ~e.own   \* a VALID partial that was turned away does not count; a rejected forgery removes nothing
                    THEN [got EXCEPT ![e.to] = {x \in @ : ~(x[1] = e.round /\ x[2] = e.prevd /\ x[3] = e.idx)}] ELSE got
        /\ epochOf' = IF "epoch" \in DOMAIN e /\ e.epoch >= 0 THEN [epochOf EXCEPT ![e.to] = e.epoch] ELSE epochOf
  /\ Keep(<<cfg, clk, store, signed, lastTick, epochs, upN, healedAt, reg, lastLive>>)

\* distinct signers whose partial for exactly (r, prevd) was valid under the epoch that is due for round r
Signers(n, r, prevd, ep) == {x[3] : x \in {y \in got[n] : y[1] = r /\ (y[2] = prevd \/ ~cfg.chained) /\ y[4] = ep}}

StepStorePut(e) ==
  /\ e.ev = "StorePut"
  /\ LET n == e.node
         st == store[n]
         ok == e.res = "ok"
         hd == HeadOf(st)
         fresh == ok /\ e.round \notin DOMAIN st
         ownCount == IF e.round \in signed[n] THEN 1 ELSE 0
         due == IF DueEpoch(n, e.round) >= 0 THEN DueEpoch(n, e.round) ELSE epochOf[n]
         thrDue == IF due \in DOMAIN epochs THEN epochs[due].t ELSE cfg.t
         cnt == Cardinality(Signers(n, e.round, e.prevd, due)) + ownCount
         A1 == If(ok /\ e.round > 0 /\ ~e.verifies, {Alarm("StoredUnverifiable", e, IF e.agg THEN "aggregation" ELSE "sync")})
         A2 == If(fresh /\ e.round > 0 /\ hd >= 0 /\ e.round # hd + 1, {Alarm("GapOrOutOfOrder", e, IF e.agg THEN "aggregation" ELSE "sync")})
         A3 == If(ok /\ e.round \in DOMAIN st /\ st[e.round] # <<e.sigd, e.prevd>>, {Alarm("Rewrite", e, "different value for a stored round")})
         A4 == If(fresh /\ cfg.chained /\ e.round > 0 /\ (e.round - 1) \in DOMAIN st /\ st[e.round - 1][1] # e.prevd,
                  {Alarm("BadLink", e, "previous signature is not the stored signature of round-1")})
         A5 == If(\E m \in NodesT : e.round \in DOMAIN store[m] /\ ok /\ e.round > 0 /\ store[m][e.round][1] # e.sigd,
                  {Alarm("Disagreement", e, "two nodes hold different beacons for one round")})
         A6 == If(fresh /\ ~e.sync /\ e.round > 0 /\ cnt < thrDue,     \* whatever does not come from the sync stream is aggregated here
                  {Alarm("BelowThreshold", e, "aggregated with fewer valid distinct partials than the threshold")})
         A7 == If(fresh /\ e.round > 0 /\ \A m \in NodesT : upN[m] => RoundAt(clk[m]) + 1 < e.round,
                  {Alarm("BeaconBeforeItsTime", e, "round stored while every clock is more than one round behind")})
     IN /\ alarms' = alarms \cup A1 \cup A2 \cup A3 \cup A4 \cup A5 \cup A6 \cup A7
        /\ store' = IF ok THEN [store EXCEPT ![n] = [r \in (DOMAIN st) \cup {e.round} |-> IF r = e.round THEN <<e.sigd, e.prevd>> ELSE st[r]]]
                    ELSE store
        \* the vault switches when round tround-1 is stored (observed on the next events); drop partial bookkeeping of old rounds
        /\ got' = IF ok THEN [got EXCEPT ![n] = {x \in @ : x[1] > e.round}] ELSE got
  /\ Keep(<<cfg, clk, signed, lastTick, epochOf, epochs, upN, healedAt, reg, lastLive>>)

StepStart(e) ==
  /\ e.ev = "Start"
  /\ LET ok == e.res = "ok" IN
     /\ upN' = IF ok THEN [upN EXCEPT ![e.node] = TRUE] ELSE upN
     /\ epochOf' = IF ok THEN [epochOf EXCEPT ![e.node] = e.epoch] ELSE epochOf
     /\ clk' = IF ok THEN [clk EXCEPT ![e.node] = e.clock] ELSE clk
     /\ signed' = [signed EXCEPT ![e.node] = {}]
     /\ got' = [got EXCEPT ![e.node] = {}]
     /\ healedAt' = healedAt
  /\ alarms' = alarms
  /\ Keep(<<cfg, store, lastTick, epochs, reg, lastLive>>)

StepStop(e) ==
  /\ e.ev = "Stop"
  /\ upN' = [upN EXCEPT ![e.node] = FALSE]
  /\ alarms' = alarms
  /\ Keep(<<cfg, clk, store, got, signed, lastTick, epochOf, epochs, healedAt, reg, lastLive>>)

\* peer sync serving: every item equals what the serving node stored (C01/C11 at network level)
StepSyncItem(e) ==
  /\ e.ev = "SyncItem"
  /\ alarms' = alarms \cup If(e.round \notin DOMAIN store[e.peer] \/ (e.round \in DOMAIN store[e.peer] /\ store[e.peer][e.round][1] # e.sigd),
                              {Alarm("ServedNotStored", e, "sync stream item differs from the stored beacon")})
  /\ Keep(<<cfg, clk, store, got, signed, lastTick, epochOf, epochs, upN, healedAt, reg, lastLive>>)

\* full cursor scan of a base store: gap-free 0..head, every round verifies, equals what was put
StepScan(e) ==
  /\ e.ev = "Scan"
  /\ LET rows == e.rows
         rs == {rows[k][1] : k \in DOMAIN rows}
         st == store[e.node]
         A1 == If(rs # {} /\ cfg.backend # "memdb" /\ rs # 0..(Cardinality(rs) - 1), {Alarm("ScanGap", e, "stored rounds are not 0..head")})
         A2 == If(\E k \in DOMAIN rows : rows[k][1] > 0 /\ ~rows[k][4], {Alarm("ScanUnverifiable", e, "a stored beacon does not verify")})
         A3 == If(\E k \in DOMAIN rows : rows[k][1] \in DOMAIN st /\ st[rows[k][1]][1] # rows[k][2], {Alarm("ScanRewrite", e, "stored bytes differ from what was put")})
         A4 == If(\E k \in DOMAIN rows : k > 1 /\ rows[k][1] <= rows[k - 1][1], {Alarm("ScanOrder", e, "cursor not ascending")})
         A5 == If(cfg.backend # "memdb" /\ DOMAIN st # {} /\ ~(DOMAIN st \subseteq rs), {Alarm("ScanLost", e, "a beacon that was put is missing")})
     IN alarms' = alarms \cup A1 \cup A2 \cup A3 \cup A4 \cup A5
  /\ Keep(<<cfg, clk, store, got, signed, lastTick, epochOf, epochs, upN, healedAt, reg, lastLive>>)

\* C07: fabricated resharing registered on the nodes
StepReshare(e) ==
  /\ e.ev = "Reshare"
  /\ epochs' = [x \in (DOMAIN epochs) \cup {e.epoch} |-> IF x = e.epoch THEN [t |-> e.t, tround |-> e.tround, members |-> Range(e.members)] ELSE epochs[x]]
  /\ alarms' = alarms \cup If(~e.samekey, {Alarm("IdentityChanged", e, "distributed public key changed")})
  /\ Keep(<<cfg, clk, store, got, signed, lastTick, epochOf, upN, healedAt, reg, lastLive>>)

\* C05 (finite-trace form), judged at quiescent points (no message in flight) of the healed phase with at
\* least a threshold of running nodes:
\*   LeftBehind   every running node is within one round of the most advanced one (a node that was down or cut
\*                off rejoined by syncing);
\*   Stalled      since the previous such point, a full period later with the same nodes up, the chain advanced
\*                (unless it already is at the round that is due);
\*   CatchupRate  in scenarios where NO node is ahead (everybody equally behind, label "live-catchup..."), the
\*                chain is at the round that was due one period earlier: it caught up at the catch-up rate.
\* (Whether a lagging but level and advancing chain closes its lag also when some nodes obtain beacons by sync
\*  instead of aggregation depends on who wins that race each round; that is decided on the design model.)
MaxOf(S) == CHOOSE x \in S : \A y \in S : y <= x
MinOf(S) == CHOOSE x \in S : \A y \in S : x <= y
StepQuiesce(e) ==
  /\ e.ev = "Quiesce"
  /\ LET ups == {n \in 0..(cfg.n - 1) : e.up[n + 1]}
         live == e.live /\ Cardinality(ups) >= cfg.t
         hs == {e.heads[n + 1] : n \in ups}
         minClk == IF ups = {} THEN 0 ELSE MinOf({e.clocks[n + 1] : n \in ups})
         due == RoundAt(minClk - Period)   \* tickers may be out of phase by less than one period
         A1 == If(live /\ MinOf(hs) < MaxOf(hs) - 1, {Alarm("NoProgress", e, "left-behind")})
         A1b == If(live /\ lastLive.set /\ lastLive.ups = ups /\ minClk >= lastLive.minClk + Period
                       /\ MaxOf(hs) <= lastLive.maxHead /\ MaxOf(hs) < due, {Alarm("NoProgress", e, "stalled")})
         A1c == If(live /\ "catchup" \in DOMAIN e /\ e.catchup /\ MinOf(hs) < due, {Alarm("NoProgress", e, "catch-up-rate")})
         A2 == If(\E n \in ups : e.heads[n + 1] > RoundAt(e.clocks[n + 1]) + 1, {Alarm("HeadBeyondClock", e, "head more than one round ahead of the node's clock")})
         \* C07: at quiescence the vault of every running node holds the epoch that is due for the next round
         A3 == If("epochs" \in DOMAIN e /\ \E n \in ups : e.heads[n + 1] >= 0 /\ DueEpoch(n, e.heads[n + 1] + 1) >= 0
                                                          /\ e.epochs[n + 1] # DueEpoch(n, e.heads[n + 1] + 1),
                  {Alarm("VaultEpoch", e, "live group/share is not the one due after the stored head")})
     IN /\ alarms' = alarms \cup A1 \cup A1b \cup A1c \cup A2 \cup A3
        /\ lastLive' = IF live THEN [set |-> TRUE, ups |-> ups, minClk |-> minClk, maxHead |-> MaxOf(hs)] ELSE lastLive
  /\ Keep(<<cfg, clk, store, got, signed, lastTick, epochOf, epochs, upN, healedAt, reg>>)

\* conformance of a scripted TLC behaviour: the model's heads vs the observed heads
StepExpect(e) ==
  /\ e.ev = "Expect"
  /\ alarms' = alarms \cup If(e.heads # e.obs, {Alarm("Conformance", e, "heads differ from the model's state")})
  /\ Keep(<<cfg, clk, store, got, signed, lastTick, epochOf, epochs, upN, healedAt, reg, lastLive>>)

StepTransition(e) ==
  /\ e.ev = "Transition"
  /\ alarms' = alarms
  /\ reg' = [k \in (DOMAIN reg) \cup {<<e.node, e.epoch>>} |-> IF k = <<e.node, e.epoch>> THEN HeadOf(store[e.node]) ELSE reg[k]]
  /\ Keep(<<cfg, clk, store, got, signed, lastTick, epochOf, epochs, upN, healedAt, lastLive>>)

StepCatchupFire(e) ==
  /\ e.ev = "CatchupFire"
  /\ lastTick' = [lastTick EXCEPT ![e.node] = [round |-> @.round, cause |-> "catchup"]]
  /\ alarms' = alarms
  /\ Keep(<<cfg, clk, store, got, signed, epochOf, epochs, upN, healedAt, reg, lastLive>>)

Other(e) ==
  /\ e.ev \in {"Catchup", "SyncOpen", "Partition", "Heal", "DropAll", "NoSuchMsg", "Parked", "End", "StopBlocked", "SettleTimeout", "Note"}
  /\ alarms' = alarms \cup If(e.ev = "StopBlocked", {Alarm("HandlerDidNotReturn", e, "Stop")})
  /\ Keep(<<cfg, clk, store, got, signed, lastTick, epochOf, epochs, upN, healedAt, reg, lastLive>>)

TraceNext ==
  /\ l <= Len(TraceLog)
  /\ LET e == TraceLog[l] IN
       \/ StepInit(e) \/ StepClock(e) \/ StepTick(e) \/ StepBcast(e) \/ StepSend(e) \/ StepDeliver(e) \/ StepRecv(e)
       \/ StepStorePut(e) \/ StepStart(e) \/ StepStop(e) \/ StepSyncItem(e) \/ StepScan(e)
       \/ StepReshare(e) \/ StepCatchupFire(e) \/ StepQuiesce(e) \/ StepExpect(e) \/ StepTransition(e) \/ Other(e)
  /\ l' = l + 1

TraceSpec == TraceInit /\ [][TraceNext]_tvars

AtEnd == l = Len(TraceLog) + 1 =>
           /\ PrintT(<<"VP", "ALARMS", ToJson(alarms)>>)
           /\ PrintT(<<"VP", "DONE", ToJson([lines |-> Len(TraceLog)])>>)
=============================================================================
