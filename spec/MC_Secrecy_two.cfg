SPECIFICATION Spec
CONSTANTS
  Nodes = {1, 2}
  Peers = {1, 2}
  MaxEpoch = 1
  Umasks = {18}
  DkgDbPerm = 384
  ChainDbPerm = 432
  PreModes = {}
INVARIANTS TypeOK NoSecretEmitted OnlyPublicOrEncrypted SecretFileOwnerOnly KeyFilesOwnerOnly SecretsOnlyInNamedFiles
VIEW View
CHECK_DEADLOCK FALSE
