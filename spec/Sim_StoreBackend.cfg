SPECIFICATION SimSpec
CONSTANTS
  Kinds = {"bolt", "trimmed", "trimmedc", "memdb"}
  K = 3
  Rounds = {0, 1, 2, 3, 4, 5}
  Vals = {0, 1, 2}
  MutInCursor = TRUE
  Depth = 30
  CoverOneIn = 1
CHECK_DEADLOCK FALSE
