SPECIFICATION LiveSpec
CONSTANTS
  n1 = n1
  n2 = n2
  n3 = n3
  n4 = n4
  Nodes = {n1, n2, n3, n4}
  ThrOld = 3
  ThrNew = 3
  T = 3
  MaxRound = 3
  Restarts = 2
  ExtraTicks = 1
PROPERTIES Live
CHECK_DEADLOCK FALSE
