SPECIFICATION SimSpec
CONSTANTS
  Scripts <- ScriptsFamily
  Variant = "code"
INVARIANTS TypeOK
CHECK_DEADLOCK FALSE
