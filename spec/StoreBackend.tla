---------------------------- MODULE StoreBackend ----------------------------
(***************************************************************************)
(* C18: every chain storage back-end behaves as ONE sorted map             *)
(*      round -> beacon.                                                   *)
(*                                                                         *)
(* Two layers, both pure operators so that Trace_StoreBackend can apply    *)
(* them to calls observed on the real stores:                              *)
(*                                                                         *)
(*  Ref*   the REFERENCE: a sorted map m : round -> value with a cursor    *)
(*         that is a position in round order.  This is what the property   *)
(*         statement promises.                                             *)
(*  Impl*  a line-by-line transcription of what the three back-ends DO:    *)
(*           "bolt"     internal/chain/boltdb/store.go   (untrimmed)       *)
(*           "trimmed"  internal/chain/boltdb/trimmed.go, requiresPrevious *)
(*                      = FALSE (unchained context)                        *)
(*           "trimmedc" trimmed.go, requiresPrevious = TRUE (chained       *)
(*                      context: chain.SetPreviousRequiredOnContext at     *)
(*                      construction)                                      *)
(*           "memdb"    internal/chain/memdb/store.go (ring of k beacons)  *)
(*                                                                         *)
(* One action per call (these are sequential libraries: the linearization  *)
(* point of a call is its return).  A Cursor call is modelled as           *)
(* open ; (first|next|seek|clast|put|del|...)* ; close, the steps between  *)
(* open and close run inside ONE callback of Store.Cursor.                 *)
(*                                                                         *)
(* Values.  A beacon put for round r with identity v carries               *)
(*   signature Sig(r,v) = <<"s",r,v>>, previous Prv(r,v) = <<"p",r,v>>     *)
(*   (v = 0: no previous signature, as in unchained schemes).              *)
(* So the DATA says for which round it was put: LabelMatchesData compares  *)
(* that with the round the returned beacon is labelled with.               *)
(***************************************************************************)
EXTENDS Integers, Sequences, FiniteSets, TLC

CONSTANTS Kinds,        \* back-ends explored by the design configs (subset of the 4 names)
          K,            \* memdb bufferSize in the design configs
          Rounds,       \* round alphabet of the environment
          Vals,         \* value identities
          MutInCursor   \* design: may Put/Del run while a bolt cursor (read tx) is open?

VARIABLES b,      \* back-end kind of this behaviour
          st,     \* Impl: stored entries in key order, Seq([round, sig, prev])
          m,      \* Ref : the sorted map, [round -> [sig, prev]]
          cur,    \* Impl: cursor [open, pos, snap]
          rc,     \* Ref : cursor [state, round, view]
          dirty,  \* Ref : the map changed since the open cursor was last positioned absolutely
          op,     \* last call with the Impl result and the Ref answer (history variable)
          hist    \* calls so far (history variable; scripts for the real code)

vars == <<b, st, m, cur, rc, dirty, op, hist>>

-----------------------------------------------------------------------------
(* values and results                                                        *)

NoSig == <<>>
Sig(r, v) == <<"s", r, v>>
Prv(r, v) == IF v = 0 THEN NoSig ELSE <<"p", r, v>>

IsBoltKind(bk) == bk \in {"bolt", "trimmed", "trimmedc"}
IsTrimmed(bk)  == bk \in {"trimmed", "trimmedc"}
NeedsPrev(bk)  == bk = "trimmedc"

\* every call result has the same shape (what the harness logs as "res")
Res(ok, err, r, s, p, n) == [ok |-> ok, err |-> err, round |-> r, sig |-> s, prev |-> p, n |-> n]
NotFound     == Res(FALSE, "notfound", 0, NoSig, NoSig, 0)   \* chainerrors.ErrNoBeaconStored
Done         == Res(TRUE, "", 0, NoSig, NoSig, 0)            \* nil error, no beacon
Found(r, s, p) == Res(TRUE, "", r, s, p, 0)
Count(n)     == Res(TRUE, "", 0, NoSig, NoSig, n)

MinOf(S) == CHOOSE x \in S : \A y \in S : x <= y
MaxOf(S) == CHOOSE x \in S : \A y \in S : y <= x

ReadOps   == {"get", "last", "first", "next", "seek", "clast"}
CursorOps == {"first", "next", "seek", "clast"}

-----------------------------------------------------------------------------
(* REFERENCE: sorted map                                                     *)

EmptyMap == [x \in {} |-> 0]
MapPut(mm, r, val) == [x \in (DOMAIN mm) \cup {r} |-> IF x = r THEN val ELSE mm[x]]
MapDel(mm, r) == [x \in (DOMAIN mm) \ {r} |-> mm[x]]
\* the k greatest rounds: a ring "differs only by forgetting the oldest rounds beyond capacity"
TopK(mm, k) == LET D == DOMAIN mm
                   keep == {x \in D : Cardinality({y \in D : y > x}) < k}
               IN [x \in keep |-> mm[x]]
RefVal(r, v) == [sig |-> Sig(r, v), prev |-> Prv(r, v)]

\* re-put replaces (bolt) or keeps (ring)
RefPut(bk, k, mm, r, v) ==
  IF bk = "memdb"
    THEN IF r \in DOMAIN mm THEN mm ELSE TopK(MapPut(mm, r, RefVal(r, v)), k)
    ELSE MapPut(mm, r, RefVal(r, v))

\* the beacon a read of stored round r answers.  Trimmed stores keep signatures only:
\* previous = stored signature of round r-1, or the read FAILS (chained context);
\* no previous at all in unchained context.
RefBeacon(bk, mm, r) ==
  IF IsTrimmed(bk)
    THEN IF NeedsPrev(bk) /\ r > 0
           THEN IF (r - 1) \in DOMAIN mm THEN Found(r, mm[r].sig, mm[r - 1].sig) ELSE NotFound
           ELSE Found(r, mm[r].sig, NoSig)
    ELSE Found(r, mm[r].sig, mm[r].prev)

RefGet(bk, mm, r) == IF r \in DOMAIN mm THEN RefBeacon(bk, mm, r) ELSE NotFound
RefLast(bk, mm)   == IF DOMAIN mm = {} THEN NotFound ELSE RefBeacon(bk, mm, MaxOf(DOMAIN mm))
RefLen(mm)        == Count(Cardinality(DOMAIN mm))

\* reference cursor: a position in round order over a view of the map.
\*   bolt kinds: the view is the snapshot taken when the cursor was opened (read transaction)
\*   memdb     : the view is the live map
\*   state "fresh" (never positioned) | "at" round | "end" (bolt kinds: ran off the end of
\*   the snapshot).  On the live view of the ring a call that finds nothing leaves the cursor
\*   where it was: rounds put later are found by a later Next.
ClosedRC == [state |-> "closed", round |-> 0, view |-> EmptyMap]
RefOpen(bk, mm) == [state |-> "fresh", round |-> 0, view |-> IF IsBoltKind(bk) THEN mm ELSE EmptyMap]
ViewOf(bk, mm, c) == IF IsBoltKind(bk) THEN c.view ELSE mm
RAt(c, r) == [c EXCEPT !.state = "at", !.round = r]
REnd(c)   == [c EXCEPT !.state = "end", !.round = 0]
\* where a call that found nothing leaves the cursor
RMiss(bk, c) == IF bk = "memdb" THEN c ELSE REnd(c)

RefFirst(bk, mm, c) ==
  LET V == ViewOf(bk, mm, c) IN
  IF DOMAIN V = {} THEN [c |-> RMiss(bk, c), res |-> NotFound]
  ELSE LET r == MinOf(DOMAIN V) IN [c |-> RAt(c, r), res |-> RefBeacon(bk, V, r)]

RefCLast(bk, mm, c) ==
  LET V == ViewOf(bk, mm, c) IN
  IF DOMAIN V = {} THEN [c |-> RMiss(bk, c), res |-> NotFound]
  ELSE LET r == MaxOf(DOMAIN V) IN [c |-> RAt(c, r), res |-> RefBeacon(bk, V, r)]

\* Seek(r): the beacon of r; for an absent r the bolt kinds answer the least stored round >= r
\* LABELLED WITH ITS OWN ROUND (or not found past the end); the ring answers not found and
\* stays where it was.  Never data of one round labelled as another.
RefSeek(bk, mm, c, r) ==
  LET V == ViewOf(bk, mm, c)
      up == {x \in DOMAIN V : x >= r}
  IN IF r \in DOMAIN V THEN [c |-> RAt(c, r), res |-> RefBeacon(bk, V, r)]
     ELSE IF bk = "memdb" THEN [c |-> c, res |-> NotFound]
     ELSE IF up = {} THEN [c |-> REnd(c), res |-> NotFound]
     ELSE LET x == MinOf(up) IN [c |-> RAt(c, x), res |-> RefBeacon(bk, V, x)]

\* Next: the least round of the view above the position.  Next on a never positioned cursor is
\* outside the Cursor contract ("starts from the first key"); the reference names what each
\* back-end family does: bolt kinds answer not found, the ring behaves as if positioned on its
\* first element.
RefNext(bk, mm, c) ==
  LET V == ViewOf(bk, mm, c)
      from == IF c.state = "at" THEN c.round
              ELSE IF c.state = "fresh" /\ bk = "memdb" /\ DOMAIN V # {} THEN MinOf(DOMAIN V)
              ELSE -1
      up == {x \in DOMAIN V : x > from}
  IN IF c.state = "end" THEN [c |-> c, res |-> NotFound]
     ELSE IF c.state = "fresh" /\ (IsBoltKind(bk) \/ DOMAIN V = {}) THEN [c |-> c, res |-> NotFound]
     ELSE IF up = {} THEN [c |-> RMiss(bk, c), res |-> NotFound]
     ELSE LET x == MinOf(up) IN [c |-> RAt(c, x), res |-> RefBeacon(bk, V, x)]

-----------------------------------------------------------------------------
(* IMPLEMENTATION: transcription of the three back-ends                      *)

Has(s, r) == \E i \in DOMAIN s : s[i].round = r
EntryAt(s, r) == s[CHOOSE i \in DOMAIN s : s[i].round = r]
Without(s, r) == SelectSeq(s, LAMBDA e : e.round # r)
\* sorted insert; an entry with the same key is replaced (bucket.Put)
Insert(s, e) == SelectSeq(s, LAMBDA x : x.round < e.round) \o <<e>> \o SelectSeq(s, LAMBDA x : x.round > e.round)

\* what is kept for a beacon: bolt = the JSON of the whole beacon under key RoundToBytes(round),
\* trimmed = the signature only, memdb = the pointer
Entry(bk, r, v) == [round |-> r, sig |-> Sig(r, v), prev |-> IF IsTrimmed(bk) THEN NoSig ELSE Prv(r, v)]

\* boltdb/store.go:Put, trimmed.go:Put : bucket.Put(key, value) overwrites.
\* memdb/store.go:Put : duplicate round => return; append; sort when out of order;
\*                      deferred: keep the last bufferSize entries.
ImplPut(bk, k, s, r, v) ==
  IF bk = "memdb"
    THEN IF Has(s, r) THEN s
         ELSE LET s1 == Insert(s, Entry(bk, r, v)) IN
              IF Len(s1) > k THEN SubSeq(s1, Len(s1) - k + 1, Len(s1)) ELSE s1
    ELSE Insert(s, Entry(bk, r, v))

ImplDel(s, r) == Without(s, r)

\* trimmed.go getBeacon / getCursorBeacon (First, Next, Seek, Last): the beacon is built from
\* a LABEL (requested round in getBeacon - an exact match -, the key found in getCursorBeacon)
\* and the signature found; with requiresPrevious and label > 0 the signature stored under label-1 is
\* fetched, a miss is ErrNoBeaconStored.
TrimRead(bk, s, e, label) ==
  IF NeedsPrev(bk) /\ label > 0
    THEN IF Has(s, label - 1) THEN Found(label, e.sig, EntryAt(s, label - 1).sig) ELSE NotFound
    ELSE Found(label, e.sig, NoSig)

\* untrimmed bolt and memdb return the stored beacon itself (its own round field)
ReadEntry(bk, s, e, label) == IF IsTrimmed(bk) THEN TrimRead(bk, s, e, label) ELSE Found(e.round, e.sig, e.prev)

ImplGet(bk, s, r) == IF Has(s, r) THEN ReadEntry(bk, s, EntryAt(s, r), r) ELSE NotFound
ImplLast(bk, s)   == IF Len(s) = 0 THEN NotFound ELSE ReadEntry(bk, s, s[Len(s)], s[Len(s)].round)
ImplLen(s)        == Count(Len(s))

\* cursor.  bolt kinds: bbolt cursor over the read transaction's snapshot, pos 0 = fresh
\* (empty stack: Next returns nil), 1..Len = on that element, Len+1 = past the end.
\* memdb: memDBCursor{round, positioned} over the LIVE slice: the round of the beacon the
\* cursor is on (since the repair of F15; before, an index into the slice).
ClosedCur == [open |-> FALSE, pos |-> 0, snap |-> <<>>, round |-> 0, set |-> FALSE]
ImplOpen(bk, s) == [open |-> TRUE, pos |-> 0, snap |-> IF IsBoltKind(bk) THEN s ELSE <<>>, round |-> 0, set |-> FALSE]
MoveTo(c, e) == [c EXCEPT !.round = e.round, !.set = TRUE]
\* sort.Search: index of the first entry with a greater round, 0 if there is none
AboveIdx(s, r) == IF \E i \in DOMAIN s : s[i].round > r
                    THEN CHOOSE i \in DOMAIN s : s[i].round > r /\ \A j \in DOMAIN s : s[j].round > r => i <= j
                    ELSE 0
CeilIdx(sn, r) == IF \E i \in DOMAIN sn : sn[i].round >= r
                    THEN CHOOSE i \in DOMAIN sn : sn[i].round >= r /\ \A j \in DOMAIN sn : sn[j].round >= r => i <= j
                    ELSE 0

ImplFirst(bk, s, c) ==
  IF IsBoltKind(bk)
    THEN LET sn == c.snap IN
         IF Len(sn) = 0 THEN [c |-> [c EXCEPT !.pos = 1], res |-> NotFound]
         ELSE [c |-> [c EXCEPT !.pos = 1], res |-> ReadEntry(bk, sn, sn[1], sn[1].round)]
    ELSE IF Len(s) = 0 THEN [c |-> c, res |-> NotFound]
         ELSE [c |-> MoveTo(c, s[1]), res |-> ReadEntry(bk, s, s[1], s[1].round)]

ImplCLast(bk, s, c) ==
  IF IsBoltKind(bk)
    THEN LET sn == c.snap IN
         IF Len(sn) = 0 THEN [c |-> [c EXCEPT !.pos = 1], res |-> NotFound]
         ELSE [c |-> [c EXCEPT !.pos = Len(sn)], res |-> ReadEntry(bk, sn, sn[Len(sn)], sn[Len(sn)].round)]
    ELSE IF Len(s) = 0 THEN [c |-> c, res |-> NotFound]
         ELSE [c |-> MoveTo(c, s[Len(s)]), res |-> ReadEntry(bk, s, s[Len(s)], s[Len(s)].round)]

ImplNext(bk, s, c) ==
  IF IsBoltKind(bk)
    THEN LET sn == c.snap IN
         IF c.pos = 0 THEN [c |-> c, res |-> NotFound]
         ELSE IF c.pos >= Len(sn) THEN [c |-> [c EXCEPT !.pos = Len(sn) + 1], res |-> NotFound]
         ELSE [c |-> [c EXCEPT !.pos = c.pos + 1],
               res |-> ReadEntry(bk, sn, sn[c.pos + 1], sn[c.pos + 1].round)]
    ELSE \* memDBCursor.Next: never positioned = as if on the first beacon (index 1 of the 0-based
         \* slice); otherwise the first beacon with a greater round; a miss leaves the cursor alone
         LET i == IF ~c.set THEN (IF Len(s) >= 2 THEN 2 ELSE 0) ELSE AboveIdx(s, c.round) IN
         IF Len(s) = 0 \/ i = 0 THEN [c |-> c, res |-> NotFound]
         ELSE [c |-> MoveTo(c, s[i]), res |-> ReadEntry(bk, s, s[i], s[i].round)]

\* boltCursor.Seek: bbolt Seek = least key >= requested, the beacon is the stored JSON.
\* trimmedBoltCursor.Seek: same positioning; the beacon is built by getCursorBeacon from the KEY
\*   FOUND (since the repair of F7; before, it was labelled with the requested round).
\* memDBCursor.Seek: exact match only; the cursor is untouched on a miss.
ImplSeek(bk, s, c, r) ==
  IF IsBoltKind(bk)
    THEN LET sn == c.snap
             i == CeilIdx(sn, r)
         IN IF i = 0 THEN [c |-> [c EXCEPT !.pos = Len(sn) + 1], res |-> NotFound]
            ELSE [c |-> [c EXCEPT !.pos = i], res |-> ReadEntry(bk, sn, sn[i], sn[i].round)]
    ELSE IF Has(s, r) THEN [c |-> MoveTo(c, EntryAt(s, r)), res |-> ReadEntry(bk, s, EntryAt(s, r), r)]
         ELSE [c |-> c, res |-> NotFound]

-----------------------------------------------------------------------------
(* One call: Impl result, Ref answer, successor state.                       *)
(* S = [st, m, cur, rc, dirty]                                               *)

Pack(s, mm, c, r, d) == [st |-> s, m |-> mm, cur |-> c, rc |-> r, dirty |-> d]

Shape(bk, k, S, o, r) ==
  LET D == DOMAIN S.m
      V == ViewOf(bk, S.m, S.rc)
  IN CASE o = "put" -> IF r \in D THEN "put-existing-round"
                       ELSE IF bk = "memdb" /\ Cardinality(D) >= k
                              THEN (IF r < MinOf(D) THEN "put-below-full-ring" ELSE "put-evicting")
                       ELSE "put-new-round"
       [] o = "del" -> IF r \in D THEN "del-stored-round" ELSE "del-absent-round"
       [] o = "get" -> IF r \in D THEN "get-stored-round" ELSE "get-absent-round"
       [] o \in {"last", "len"} -> IF D = {} THEN "empty" ELSE "nonempty"
       [] o \in {"first", "clast"} -> IF DOMAIN V = {} THEN "empty" ELSE "nonempty"
       [] o = "seek" -> IF r \in DOMAIN V THEN "seek-stored-round"
                        ELSE IF \E x \in DOMAIN V : x > r THEN "seek-absent-round"
                        ELSE "seek-past-end"
       [] o = "next" -> IF S.dirty THEN "next-after-mutation"
                        ELSE IF S.rc.state = "fresh" THEN "next-unpositioned"
                        ELSE IF S.rc.state = "end" THEN "next-at-end"
                        ELSE "next"
       [] OTHER -> "-"

Apply(bk, k, S, o, r, v) ==
  LET sh == Shape(bk, k, S, o, r) IN
  CASE o = "put" ->
         LET m2 == RefPut(bk, k, S.m, r, v) IN
         [S |-> Pack(ImplPut(bk, k, S.st, r, v), m2, S.cur, S.rc, S.dirty \/ (S.cur.open /\ m2 # S.m)),
          res |-> Done, exp |-> Done, shape |-> sh]
    [] o = "del" ->
         LET m2 == MapDel(S.m, r) IN
         [S |-> Pack(ImplDel(S.st, r), m2, S.cur, S.rc, S.dirty \/ (S.cur.open /\ m2 # S.m)),
          res |-> Done, exp |-> Done, shape |-> sh]
    [] o = "get"  -> [S |-> S, res |-> ImplGet(bk, S.st, r), exp |-> RefGet(bk, S.m, r), shape |-> sh]
    [] o = "last" -> [S |-> S, res |-> ImplLast(bk, S.st), exp |-> RefLast(bk, S.m), shape |-> sh]
    [] o = "len"  -> [S |-> S, res |-> ImplLen(S.st), exp |-> RefLen(S.m), shape |-> sh]
    [] o = "open" -> [S |-> Pack(S.st, S.m, ImplOpen(bk, S.st), RefOpen(bk, S.m), FALSE),
                      res |-> Done, exp |-> Done, shape |-> sh]
    [] o = "close" -> [S |-> Pack(S.st, S.m, ClosedCur, ClosedRC, FALSE),
                       res |-> Done, exp |-> Done, shape |-> sh]
    [] o = "first" ->
         LET i == ImplFirst(bk, S.st, S.cur)  x == RefFirst(bk, S.m, S.rc) IN
         [S |-> Pack(S.st, S.m, i.c, x.c, FALSE), res |-> i.res, exp |-> x.res, shape |-> sh]
    [] o = "clast" ->
         LET i == ImplCLast(bk, S.st, S.cur)  x == RefCLast(bk, S.m, S.rc) IN
         [S |-> Pack(S.st, S.m, i.c, x.c, FALSE), res |-> i.res, exp |-> x.res, shape |-> sh]
    [] o = "seek" ->
         LET i == ImplSeek(bk, S.st, S.cur, r)  x == RefSeek(bk, S.m, S.rc, r)
             repositioned == IsBoltKind(bk) \/ r \in DOMAIN S.m
         IN [S |-> Pack(S.st, S.m, i.c, x.c, IF repositioned THEN FALSE ELSE S.dirty),
             res |-> i.res, exp |-> x.res, shape |-> sh]
    [] o = "next" ->
         LET i == ImplNext(bk, S.st, S.cur)  x == RefNext(bk, S.m, S.rc) IN
         [S |-> Pack(S.st, S.m, i.c, x.c, S.dirty), res |-> i.res, exp |-> x.res, shape |-> sh]

\* which calls the harness may issue in a state (a bbolt read transaction is open during the
\* Cursor callback of the bolt kinds: other reads from the callback's goroutine can deadlock
\* behind a waiting writer, so only cursor calls and - from another goroutine - Put/Del are
\* issued there; memdb takes its lock per call, everything is possible inside the callback)
CanCall(bk, S, o, mut) ==
  /\ o \in {"first", "next", "seek", "clast", "close"} => S.cur.open
  /\ o = "open" => ~S.cur.open
  /\ o \in {"get", "last", "len"} => ~(S.cur.open /\ IsBoltKind(bk))
  /\ o \in {"put", "del"} => ~(S.cur.open /\ IsBoltKind(bk) /\ ~mut)

-----------------------------------------------------------------------------
(* MONITORS.  obs = the result a call returned, S = state before the call,   *)
(* x = Apply(...) (only its Ref parts are used: x.exp, x.S.m)                *)

\* every answer is the sorted map's answer
RefinesSortedMap(obs, x) == obs = x.exp

\* a returned beacon labelled round r carries data that was put for r
WellLabelled(rec) ==
  /\ Len(rec.sig) = 3 /\ rec.sig[1] = "s" /\ rec.sig[2] = rec.round
  /\ \/ rec.prev = NoSig
     \/ Len(rec.prev) = 3 /\ rec.prev[1] = "p" /\ rec.prev[2] = rec.round /\ rec.prev[3] = rec.sig[3]
     \/ Len(rec.prev) = 3 /\ rec.prev[1] = "s" /\ rec.prev[2] + 1 = rec.round
LabelMatchesData(o, obs) == (o \in ReadOps /\ obs.ok) => WellLabelled(obs)

\* a cursor moves in ascending round order
AscendingIteration(S, o, obs) ==
  (o = "next" /\ obs.ok /\ S.rc.state = "at") => obs.round > S.rc.round

\* seeking a stored round returns that round (or, trimmed+chained, fails for want of round-1)
SeekStoredReturnsIt(bk, S, o, r, obs) ==
  LET V == ViewOf(bk, S.m, S.rc) IN
  (o = "seek" /\ r \in DOMAIN V) =>
     IF obs.ok THEN obs.round = r /\ obs.sig = V[r].sig
     ELSE NeedsPrev(bk) /\ r > 0 /\ (r - 1) \notin DOMAIN V /\ obs.err = "notfound"

\* reconstructed previous = stored signature of round-1, or the read fails
PrevIsPredecessorSig(bk, S, o, obs) ==
  LET V == IF o \in CursorOps THEN ViewOf(bk, S.m, S.rc) ELSE S.m IN
  (IsTrimmed(bk) /\ o \in ReadOps /\ obs.ok) =>
     IF NeedsPrev(bk) /\ obs.round > 0
       THEN (obs.round - 1) \in DOMAIN V /\ obs.prev = V[obs.round - 1].sig
       ELSE obs.prev = NoSig

\* ring: after Put(r) the rounds present (obsRounds, seen through Get) are the old ones plus r
\* minus only the oldest ones beyond capacity
RingForgetsOnlyOldest(k, pre, r, obsRounds) ==
  LET P == (DOMAIN pre) \cup {r}
      gone == P \ obsRounds
  IN /\ obsRounds \subseteq P
     /\ \A x \in gone : \A y \in obsRounds : x < y
     /\ Cardinality(obsRounds) = (IF Cardinality(P) > k THEN k ELSE Cardinality(P))

MonitorNames == <<"RefinesSortedMap", "LabelMatchesData", "AscendingIteration",
                  "SeekStoredReturnsIt", "PrevIsPredecessorSig">>
MonitorHolds(name, bk, S, o, r, obs, x) ==
  CASE name = "RefinesSortedMap"     -> RefinesSortedMap(obs, x)
    [] name = "LabelMatchesData"     -> LabelMatchesData(o, obs)
    [] name = "AscendingIteration"   -> AscendingIteration(S, o, obs)
    [] name = "SeekStoredReturnsIt"  -> SeekStoredReturnsIt(bk, S, o, r, obs)
    [] name = "PrevIsPredecessorSig" -> PrevIsPredecessorSig(bk, S, o, obs)
FailedMonitors(bk, S, o, r, obs, x) ==
  {MonitorNames[i] : i \in {j \in DOMAIN MonitorNames : ~MonitorHolds(MonitorNames[j], bk, S, o, r, obs, x)}}

\* Named deviations of the code from the reference (DESIGN section 8).  None is left: F7
\* (trimmed Seek of an absent round labelled with the requested round) and F15 (memdb cursor
\* positioned by slice index) were repaired in the code and the transcription above follows the
\* repaired code.  The operator stays as the place where a future recorded deviation is named.
NamedDeviation(bk, shape) == FALSE

-----------------------------------------------------------------------------
(* Design-level state machine: the environment calls anything, any time      *)

Cur == Pack(st, m, cur, rc, dirty)

Init == /\ b \in Kinds
        /\ st = <<>> /\ m = EmptyMap /\ cur = ClosedCur /\ rc = ClosedRC /\ dirty = FALSE
        /\ op = [op |-> "init", round |-> 0, v |-> 0, res |-> Done, exp |-> Done, shape |-> "-", b |-> b, k |-> K]
        /\ hist = <<[op |-> "init", b |-> b, k |-> K]>>

Call(o, r, v) ==
  /\ CanCall(b, Cur, o, MutInCursor)
  /\ \E x \in {Apply(b, K, Cur, o, r, v)} :      \* (bound once: TLC re-evaluates LET bodies)
     /\ st' = x.S.st /\ m' = x.S.m /\ cur' = x.S.cur /\ rc' = x.S.rc /\ dirty' = x.S.dirty
     /\ op' = [op |-> o, round |-> r, v |-> v, res |-> x.res, exp |-> x.exp, shape |-> x.shape, b |-> b, k |-> K]
  /\ hist' = Append(hist, [op |-> o, round |-> r, v |-> v])
  /\ b' = b

Next == \/ \E r \in Rounds, v \in Vals : Call("put", r, v)
        \/ \E r \in Rounds : Call("get", r, 0) \/ Call("del", r, 0) \/ Call("seek", r, 0)
        \/ \E o \in {"last", "len", "open", "close", "first", "next", "clast"} : Call(o, 0, 0)

Spec == Init /\ [][Next]_vars
View == <<b, st, m, cur, rc, dirty>>

\* ---- invariants of the design model
ContentOf(s) == [r \in {s[i].round : i \in DOMAIN s} |-> [sig |-> EntryAt(s, r).sig, prev |-> EntryAt(s, r).prev]]
Inv_Sorted   == \A i, j \in DOMAIN st : i < j => st[i].round < st[j].round
Inv_Capacity == b = "memdb" => Len(st) <= K
\* the stored content IS the reference map (trimmed: signatures only)
Inv_Content  == /\ DOMAIN ContentOf(st) = DOMAIN m
                /\ \A r \in DOMAIN m : /\ ContentOf(st)[r].sig = m[r].sig
                                       /\ ~IsTrimmed(b) => ContentOf(st)[r].prev = m[r].prev
TypeOK == /\ b \in {"bolt", "trimmed", "trimmedc", "memdb"}
          /\ DOMAIN m \subseteq Rounds
          /\ cur.open = (rc.state # "closed")

\* the state before the last call, for the step monitors
PreS == Pack(st, m, cur, rc, dirty)
StepOK(names) ==
  \A o \in {op'.op} : \A x \in {Apply(b, K, PreS, o, op'.round, op'.v)} :
    \A i \in DOMAIN MonitorNames :
       MonitorNames[i] \in names => MonitorHolds(MonitorNames[i], b, PreS, o, op'.round, op'.res, x)

AllMonitors == {MonitorNames[i] : i \in DOMAIN MonitorNames}

\* strict: the transcribed code satisfies every monitor at every call
\* (Sim_StoreBackend!Act_Classify prints one path per class of failure, should there be any)
Act_Strict == [][StepOK(AllMonitors)]_vars
\* modulo the named deviations the transcribed code is the sorted map (must hold, complete graph)
Act_ModuloNamed == [][NamedDeviation(b, op'.shape) \/ StepOK(AllMonitors)]_vars
\* monitors that even the named deviations must not break
Act_PrevAlways == [][StepOK({"PrevIsPredecessorSig", "SeekStoredReturnsIt"})]_vars
\* ring step property on the model content
Act_Ring == [][(b = "memdb" /\ op'.op = "put") =>
                  RingForgetsOnlyOldest(K, m, op'.round, {st'[i].round : i \in DOMAIN st'})]_vars
=============================================================================
