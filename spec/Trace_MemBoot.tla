--------------------------- MODULE Trace_MemBoot ---------------------------
EXTENDS MemBoot, Sequences, Json
TraceLog == ndJsonDeserialize("trace.ndjson")
VARIABLES l, alarms
Alarm(mon, e, d) == [mon |-> mon, scenario |-> e.scheme, ev |-> e.ev, line |-> l, detail |-> d]
If(c, S) == IF c THEN S ELSE {}
\* logged answers: sequences (index = peer) of [err, zero, vok]
F(s) == [p \in 1..Len(s) |-> [err |-> s[p].err, zero |-> s[p].zero, vok |-> s[p].vok]]
TraceInit == Init /\ l = 1 /\ alarms = {}
Step(e) == /\ e.ev = "Boot"
           /\ LET aT == F(e.aT) aL == F(e.aL)
                  exp == Outcome(e.fresh, aT, e.fT, aL, e.fL)
                  got == IF e.stored = "beacon" THEN <<"beacon", e.vok>> ELSE <<e.stored>>
              IN alarms' = alarms
                   \cup If(e.stored = "beacon" /\ ~e.vok, {Alarm("StoredUnverifiable", e, "bootstrap")})
                   \cup If(e.stored = "other", {Alarm("StoredUnverifiable", e, "bootstrap-unknown-content")})
                   \cup If(got # exp /\ ~(e.stored = "beacon" /\ ~e.vok), {Alarm("Conformance", e, "outcome differs from the specification")})
                   \cup If(e.askedLatest # AsksLatest(e.fresh, aT), {Alarm("Conformance", e, "latest-round request differs from the specification")})
           /\ UNCHANGED <<case, done>>
TraceNext == l <= Len(TraceLog) /\ Step(TraceLog[l]) /\ l' = l + 1
TraceSpec == TraceInit /\ [][TraceNext]_<<case, done, l, alarms>>
AtEnd == l = Len(TraceLog) + 1 =>
           /\ PrintT(<<"VP", "ALARMS", ToJson(alarms)>>)
           /\ PrintT(<<"VP", "DONE", ToJson([lines |-> Len(TraceLog)])>>)
=============================================================================
