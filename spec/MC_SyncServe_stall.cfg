SPECIFICATION Spec
CONSTANTS
  Streams = {1, 2}
  SameAddr = FALSE
  Writers = {1}
  Q = 2
  InitHead = 2
  MaxR = 6
  Froms = {0, 2}
  Backend = "bolt"
  Buf = 100
  Remap = FALSE
  Faults = {"stall"}
  MaxFaults = 1
INVARIANTS TypeOK Inv_SentStored Mon_InOrder Mon_FromStart
CHECK_DEADLOCK FALSE
