#!/usr/bin/env python3
"""Runs every seeded change (seeded/<Cnn>-*/patch[.rebased].diff) against the quick check(s) of its property
in a scratch worktree (tools/seedtest.sh) and records the outcome in seeded/RESULTS.json."""
import glob, json, os, re, subprocess, sys, time
ROOT = os.path.dirname(os.path.dirname(os.path.abspath(__file__)))
EXTRA = {"C02-memdb-evict-first": ["C18"], "C18-memdb-evict-first": ["C18"], "C12-stalled-replacement": ["C12", "C11"],
         "C11-dispatch-drops-when-full": ["C11"], "C03-quorum-memo": ["C03", "C07", "C01"], "C07-asgroup-qual-position-identity": ["C06", "C07"]}
only = sys.argv[1:]
res = {}
out = os.path.join(ROOT, "seeded", "RESULTS.json")
if os.path.exists(out):
    res = json.load(open(out))
for d in sorted(glob.glob(os.path.join(ROOT, "seeded", "C*"))):
    name = os.path.basename(d)
    if only and not any(name.startswith(o) for o in only):
        continue
    patch = os.path.join(d, "patch.rebased.diff")
    if not os.path.exists(patch):
        patch = os.path.join(d, "patch.diff")
    props = EXTRA.get(name, [name.split("-")[0]])
    t0 = time.time()
    p = subprocess.run([os.path.join(ROOT, "tools/seedtest.sh"), patch] + props, capture_output=True, text=True)
    rcs = dict(re.findall(r"== (C\d+) rc=(\d+)", p.stdout))
    alarms = re.findall(r"what: (.*)", p.stdout)
    res[name] = {"patch": os.path.relpath(patch, ROOT), "checks": rcs, "caught": any(v == "1" for v in rcs.values()),
                 "first_alarm": (alarms[0][:300] if alarms else ""), "wall_s": int(time.time() - t0),
                 "note": "PATCH DOES NOT APPLY" if "DOES NOT APPLY" in p.stdout else ""}
    import fcntl
    with open(out + ".lock", "w") as lk:          # several sweeps may run side by side
        fcntl.flock(lk, fcntl.LOCK_EX)
        cur = json.load(open(out)) if os.path.exists(out) else {}
        cur[name] = res[name]
        json.dump(cur, open(out, "w"), indent=1)
    print(name, rcs, "caught" if res[name]["caught"] else "MISSED", res[name]["note"], flush=True)
