"""Core machinery shared by all property engines (see DESIGN.md sections 1, 2.3, 6).

Nothing here decides a property.  It runs TLC (exhaustive configs, simulation,
trace validation), builds and runs the Go harness against /repo's *current
working tree* (overlay + -tags verif), collects what TLC reports and writes
evidence.  A verdict (exit 1) is produced only from alarms that TLC computed
with the specification's monitors on executions observed on the real code.
"""
import json, os, re, shutil, subprocess, sys, time, hashlib, glob

ROOT = os.path.dirname(os.path.dirname(os.path.abspath(__file__)))
REPO = os.environ.get("VERIF_REPO", "/repo")
# evidence and replays of the registered checks (run against /repo) live in /verif; a run against a scratch
# worktree (seeded changes) must not overwrite them
OUTROOT = ROOT if os.path.realpath(REPO) == "/repo" else os.path.join(ROOT, ".work", "scratchrun")
SPEC = os.path.join(ROOT, "spec")
WORK = os.path.join(ROOT, ".work")
NCPU = os.cpu_count() or 4

GOENV = {"GOFLAGS": "-mod=mod", "GOPROXY": "off"}


class Inconclusive(Exception):
    pass


def sh(cmd, cwd=None, env=None, timeout=None, stdin=None):
    e = dict(os.environ)
    # never inherit settings that break the toolchain switch
    e.pop("GOTOOLCHAIN", None)
    e.pop("GOSUMDB", None)
    if env:
        e.update(env)
    t0 = time.time()
    try:
        p = subprocess.run(cmd, cwd=cwd, env=e, timeout=timeout, input=stdin,
                           stdout=subprocess.PIPE, stderr=subprocess.STDOUT, text=True,
                           shell=isinstance(cmd, str))
        return p.returncode, p.stdout, time.time() - t0
    except subprocess.TimeoutExpired as ex:
        out = ex.stdout or ""
        if isinstance(out, bytes):
            out = out.decode("utf-8", "replace")
        return 124, out + "\n[timeout]", time.time() - t0


# --------------------------------------------------------------------------- TLC

class TLCResult:
    def __init__(self):
        self.rc = None
        self.out = ""
        self.generated = 0
        self.distinct = 0
        self.depth = 0
        self.violated = None      # name of violated invariant / property
        self.error = None         # other error text
        self.prints = []          # PrintT'ed values (raw strings)
        self.wall = 0.0
        self.timeout = False
        self.coverage_zero = []   # actions never taken (with -coverage)
        self.workdir = None
        self.finished = False

    def ok(self):
        return self.rc == 0 and self.violated is None and self.error is None


_RE_STATES = re.compile(r"(\d+) states generated, (\d+) distinct states found")
_RE_DEPTH = re.compile(r"The depth of the complete state graph search is (\d+)")
_RE_INV = re.compile(r"Error: Invariant (\S+) is violated")
_RE_PROP = re.compile(r"Error: (?:Temporal properties were violated|Action property (\S+) is violated)")


def run_tlc(workdir, module, cfg, workers=None, timeout=600, simulate=None, depth=None,
            seed=None, extra=None, coverage=False, deadlock=None, dfs_queue=False, heap=None,
            files=None):
    """Run TLC on spec/<module>.tla with spec/<cfg> inside a scratch copy."""
    os.makedirs(workdir, exist_ok=True)
    for f in glob.glob(os.path.join(SPEC, "*.tla")) + glob.glob(os.path.join(SPEC, "*.cfg")):
        shutil.copy(f, workdir)
    for src, dst in (files or {}).items():
        shutil.copy(src, os.path.join(workdir, dst))
    meta = os.path.join(workdir, "meta-%d" % int(time.time() * 1000))
    jtmp = os.path.join(workdir, "jtmp")      # SANY/TLC unpack their standard modules into java.io.tmpdir on every run
    os.makedirs(jtmp, exist_ok=True)
    cmd = ["java", "-XX:+UseParallelGC", "-Djava.io.tmpdir=" + jtmp]
    if heap:
        cmd.append("-Xmx" + heap)
    cmd.append("-Xss64m")
    if dfs_queue:
        cmd.append("-Dtlc2.tool.queue.IStateQueue=StateDeque")
    cmd += ["-cp", "/opt/veriftools/tla/tla2tools.jar:/opt/veriftools/tla/CommunityModules-deps.jar",
            "tlc2.TLC", "-metadir", meta, "-config", cfg]
    w = workers if workers else NCPU
    cmd += ["-workers", str(w)]
    if simulate:
        cmd += ["-simulate", simulate]
    if depth:
        cmd += ["-depth", str(depth)]
    if seed is not None:
        cmd += ["-seed", str(seed)]
    if coverage:
        cmd += ["-coverage", "1"]
    if deadlock is False:
        cmd += ["-deadlock"]
    cmd += (extra or [])
    cmd.append(module)
    rc, out, wall = sh(cmd, cwd=workdir, timeout=timeout)
    shutil.rmtree(jtmp, ignore_errors=True)
    r = TLCResult()
    r.rc, r.out, r.wall, r.workdir = rc, out, wall, workdir
    try:
        with open(os.path.join(workdir, "tlc.out"), "w") as fh:
            fh.write(out)
    except OSError:
        pass
    r.timeout = (rc == 124)
    for m in _RE_STATES.finditer(out):
        r.generated, r.distinct = int(m.group(1)), int(m.group(2))
    if r.generated == 0:
        m = re.search(r"(\d+) states checked", out)  # simulation mode
        if m:
            r.generated = r.distinct = int(m.group(1))
    m = _RE_DEPTH.search(out)
    if m:
        r.depth = int(m.group(1))
    m = _RE_INV.search(out)
    if m:
        r.violated = m.group(1)
    m = _RE_PROP.search(out)
    if m and not r.violated:
        r.violated = m.group(1) or "TemporalProperty"
    if "Model checking completed. No error has been found." in out or \
       (simulate and rc in (0,) ):
        r.finished = True
    if r.violated is None and rc not in (0, 124):
        em = re.search(r"Error: (.*)", out)
        r.error = em.group(1) if em else "tlc exit %d" % rc
        if "Deadlock reached" in out:
            r.violated = "Deadlock"
            r.error = None
    if "Postcondition" in out and "is false" in out and r.violated is None:
        r.violated = "Postcondition"
        r.error = None
    # PrintT outputs: lines that are TLA values; we only collect our tagged JSON strings
    for line in out.splitlines():
        if line.startswith('<<"VP"'):
            r.prints.append(line)
    if coverage:
        for m in re.finditer(r"<(\w+) line \d+, col \d+ to line \d+, col \d+ of module (\w+)>: (\d+):(\d+)", out):
            if m.group(3) == "0" and m.group(4) == "0":
                r.coverage_zero.append(m.group(1))
    shutil.rmtree(meta, ignore_errors=True)
    return r


def tla_unquote(s):
    """Turn a TLA+ printed string literal body (with \\" and \\\\ escapes) into text."""
    out, i = [], 0
    while i < len(s):
        c = s[i]
        if c == "\\" and i + 1 < len(s):
            n = s[i + 1]
            out.append({"n": "\n", "t": "\t", '"': '"', "\\": "\\"}.get(n, n))
            i += 2
        else:
            out.append(c)
            i += 1
    return "".join(out)


def parse_vp_prints(prints):
    """<<"VP", "tag", "<json>">> lines -> list of (tag, obj)."""
    res = []
    for line in prints:
        m = re.match(r'^<<"VP", "([^"]*)", "(.*)">>$', line)
        if not m:
            continue
        try:
            res.append((m.group(1), json.loads(tla_unquote(m.group(2)))))
        except Exception:
            res.append((m.group(1), None))
    return res


# --------------------------------------------------------------------------- Go harness

def _repo_tag():
    return "" if REPO == "/repo" else "-" + hashlib.sha1(REPO.encode()).hexdigest()[:8]


_PRIVATE = {}


def _private_dir(stem):
    """.work/<stem>.<pid>, fresh; directories of the same stem left by processes that are gone are removed."""
    if stem in _PRIVATE:
        return _PRIVATE[stem]
    os.makedirs(WORK, exist_ok=True)
    for d in os.listdir(WORK):
        m = re.match(re.escape(stem) + r"\.(\d+)$", d)
        if m and not os.path.exists("/proc/%s" % m.group(1)):
            shutil.rmtree(os.path.join(WORK, d), ignore_errors=True)
    p = os.path.join(WORK, "%s.%d" % (stem, os.getpid()))
    shutil.rmtree(p, ignore_errors=True)
    os.makedirs(p, exist_ok=True)
    _PRIVATE[stem] = p
    return p


def overlay_path():
    return os.path.join(WORK, "overlay%s.json" % _repo_tag())


def build_overlay():
    """Map /verif harness sources into the repository tree (no file is written in /repo)."""
    os.makedirs(WORK, exist_ok=True)
    rep = {os.path.join(REPO, "internal/vlib/vlib.go"): os.path.join(ROOT, "harness/lib/vlib.go")}
    base = os.path.join(ROOT, "harness/overlay")
    for d, _, files in os.walk(base):
        for f in files:
            if not f.endswith(".go"):
                continue
            rel = os.path.relpath(d, base)
            rep[os.path.join(REPO, rel, "zz_verif_" + f)] = os.path.join(d, f)
    tmp = "%s.%d" % (overlay_path(), os.getpid())      # concurrent runs: never expose a half-written file
    with open(tmp, "w") as fh:
        json.dump({"Replace": rep}, fh, indent=1)
    os.replace(tmp, overlay_path())
    return overlay_path()


def go_build_test(pkg, tags="verif", timeout=1500):
    """Compile the test binary of a repo package (current working tree + overlay)."""
    build_overlay()
    bindir = _private_dir("bin" + _repo_tag())       # one per process: runs of several checks may overlap
    out = os.path.join(bindir, pkg.strip("./").replace("/", "_") + "." + tags.replace(",", "_") + ".test")
    cmd = ["go", "test", "-c", "-vet=off", "-tags", tags, "-overlay", overlay_path(), "-o", out, pkg]
    rc, o, wall = sh(cmd, cwd=REPO, env=GOENV, timeout=timeout)
    if rc != 0:
        raise Inconclusive("go build failed for %s:\n%s" % (pkg, o[-4000:]))
    return out


def run_test_bin(binary, pkg, run, env=None, timeout=900, extra=None):
    """Run an already compiled test binary in the package directory."""
    cwd = os.path.join(REPO, pkg.strip("./"))
    cmd = [binary, "-test.run", run, "-test.count=1", "-test.timeout", "%ds" % timeout, "-test.v"] + (extra or [])
    e = dict(GOENV)
    e.update(env or {})
    return sh(cmd, cwd=cwd, env=e, timeout=timeout + 30)


# --------------------------------------------------------------------------- context / evidence

class Ctx:
    def __init__(self, prop, tier, seed):
        self.prop, self.tier, self.seed = prop, tier, seed
        self.quick = (tier == "quick")
        self.t0 = time.time()
        self.work = _private_dir(prop + _repo_tag() + "-" + tier)
        self.states = 0
        self.transitions = 0
        self.traces = 0
        self.samples = []
        self.tlc_runs = []
        self.alarms = []          # list of dict(sig=..., text=..., replay=...)
        self.notes = []
        self.inconclusive = []
        self.assumptions = []
        self.extra = {}
        self.exhaustive = True
        self._k = 0

    def log(self, *a):
        print("[%s %6.1fs]" % (self.prop, time.time() - self.t0), *a, flush=True)

    def sub(self, name):
        self._k += 1
        d = os.path.join(self.work, "%02d-%s" % (self._k, name))
        os.makedirs(d, exist_ok=True)
        return d

    # ---- TLC wrappers
    def model_check(self, module, cfg, name=None, expect_ok=True, **kw):
        """Exhaustive (or simulated) TLC run of a design config.  A violation here is a
        *model* counterexample: never a verdict by itself (DESIGN 1.2)."""
        d = self.sub(name or cfg.replace(".cfg", ""))
        r = run_tlc(d, module, cfg, **kw)
        self.states += r.distinct
        self.transitions += r.generated
        rec = {"module": module, "cfg": cfg, "distinct": r.distinct, "generated": r.generated,
               "depth": r.depth, "wall_s": round(r.wall, 1), "finished": r.finished,
               "violated": r.violated, "error": r.error}
        if kw.get("coverage"):
            rec["actions_never_taken"] = sorted(set(r.coverage_zero))
        self.tlc_runs.append(rec)
        self.log("TLC %s/%s: %d distinct / %d generated, depth %d, %.1fs%s%s" % (
            module, cfg, r.distinct, r.generated, r.depth, r.wall,
            " VIOLATED " + r.violated if r.violated else "",
            " ERROR " + str(r.error) if r.error else ""))
        if r.timeout:
            self.exhaustive = False
            if expect_ok:
                self.inconclusive.append("TLC timeout on %s/%s" % (module, cfg))
        elif r.error and expect_ok:
            self.inconclusive.append("TLC error on %s/%s: %s\n%s" % (module, cfg, r.error, r.out[-1500:]))
        elif r.violated and expect_ok:
            self.inconclusive.append(
                "model counterexample on %s/%s (%s) - not a verdict until reproduced on real code\n%s"
                % (module, cfg, r.violated, r.out[-3000:]))
        if not kw.get("simulate") and not r.finished:
            self.exhaustive = False
        return r

    def validate_trace(self, module, cfg, trace_file, name=None, timeout=900, workers=1, dfs=True, extra_files=None):
        """Run a Trace_* spec over an ndjson trace recorded from the real code.
        Returns (accepted:bool, alarms:list, result)."""
        d = self.sub(name or ("trace-" + cfg.replace(".cfg", "")))
        files = {trace_file: "trace.ndjson"}
        files.update(extra_files or {})
        r = run_tlc(d, module, cfg, workers=workers, timeout=timeout, dfs_queue=dfs, files=files)
        self.states += r.distinct
        self.transitions += r.generated
        prints = parse_vp_prints(r.prints)
        alarms = []
        done = None
        for tag, obj in prints:
            if tag == "ALARMS" and obj is not None:
                alarms = obj if isinstance(obj, list) else [obj]
            if tag == "DONE":
                done = obj
        accepted = r.ok() and done is not None
        self.tlc_runs.append({"module": module, "cfg": cfg, "trace": os.path.basename(trace_file),
                              "distinct": r.distinct, "generated": r.generated, "wall_s": round(r.wall, 1),
                              "accepted": accepted, "alarms": len(alarms), "violated": r.violated, "error": r.error})
        self.log("TRACE %s/%s on %s: accepted=%s alarms=%d (%d states, %.1fs)%s" % (
            module, cfg, os.path.basename(trace_file), accepted, len(alarms), r.distinct, r.wall,
            (" " + str(r.violated or r.error)) if not accepted else ""))
        if not accepted:
            self.inconclusive.append("trace %s not consumed by %s (%s)\n%s" % (
                trace_file, module, r.violated or r.error or "no DONE marker", r.out[-3000:]))
        return accepted, alarms, r

    # ---- alarms
    def alarm(self, sig, text, replay=None):
        self.alarms.append({"sig": sig, "text": text, "replay": replay})

    def sample(self, s):
        if len(self.samples) < 12:
            self.samples.append(s)


def load_known():
    p = os.path.join(ROOT, "known_findings.json")
    if not os.path.exists(p):
        return []
    return json.load(open(p)).get("findings", [])


def sig_matches(known_sig, sig):
    return all(str(sig.get(k)) == str(v) for k, v in known_sig.items())


def finish(ctx, level="model_checking"):
    """Triages alarms against known findings, writes evidence, returns exit code."""
    known = [k for k in load_known() if k.get("property") == ctx.prop and k.get("status") == "known"]
    new, seen_known = [], {}
    for a in ctx.alarms:
        hit = None
        for k in known:
            if sig_matches(k["signature"], a["sig"]):
                hit = k
                break
        if hit:
            seen_known.setdefault(hit["id"], (hit, 0))
            seen_known[hit["id"]] = (hit, seen_known[hit["id"]][1] + 1)
        else:
            new.append(a)
    for kid, (k, cnt) in sorted(seen_known.items()):
        print("KNOWN-FINDING: property=%s %s [%s, %d occurrence(s) this run]" % (ctx.prop, k["what"], kid, cnt))
    # dedupe new alarms by signature
    uniq = {}
    for a in new:
        uniq.setdefault(json.dumps(a["sig"], sort_keys=True), a)
    rc = 0
    if uniq:
        rc = 1
        os.makedirs(os.path.join(OUTROOT, "replays"), exist_ok=True)
        for key, a in uniq.items():
            rp = a.get("replay")
            if not rp:
                h = hashlib.sha1(key.encode()).hexdigest()[:10]
                rp = os.path.join(OUTROOT, "replays", "%s-%s.json" % (ctx.prop, h))
                with open(rp, "w") as fh:
                    json.dump({"property": ctx.prop, "seed": ctx.seed, "tier": ctx.tier, "signature": a["sig"],
                               "what": a["text"]}, fh, indent=1)
            print("VIOLATION property=%s replay=%s" % (ctx.prop, rp))
            print("  what: %s" % a["text"])
            print("  signature: %s" % json.dumps(a["sig"], sort_keys=True))
    elif ctx.inconclusive:
        rc = 2
        for m in ctx.inconclusive:
            print("INCONCLUSIVE: " + m)
    ev = {
        "property_id": ctx.prop, "tier": ctx.tier, "seed": ctx.seed, "level": level,
        "coverage": {
            "states": max(ctx.states, 0), "transitions": max(ctx.transitions, 0),
            "traces_validated_against_impl": ctx.traces,
            "samples": ctx.samples or ["(no sample recorded)"],
            "exhaustive": bool(ctx.exhaustive),
            "tlc_runs": ctx.tlc_runs,
            "known_findings_seen": sorted(seen_known.keys()),
            "notes": ctx.notes,
        },
        "assumptions": ctx.assumptions,
        "wall_s": round(time.time() - ctx.t0, 1),
        "violations": len(uniq),
    }
    ev["coverage"].update(ctx.extra)
    if rc == 2:
        ev["coverage"]["inconclusive"] = [m[:500] for m in ctx.inconclusive]
    os.makedirs(os.path.join(OUTROOT, "evidence"), exist_ok=True)
    with open(os.path.join(OUTROOT, "evidence", ctx.prop + ".json"), "w") as fh:
        json.dump(ev, fh, indent=1)
    print("[%s] done rc=%d states=%d transitions=%d traces=%d wall=%.1fs" % (
        ctx.prop, rc, ctx.states, ctx.transitions, ctx.traces, time.time() - ctx.t0))
    return rc
