#!/usr/bin/env python3
"""Generates MANIFEST.json from tools/manifest_data.py (single source of truth)."""
import json, os, sys
sys.path.insert(0, os.path.dirname(os.path.abspath(__file__)))
import manifest_data as md

ROOT = os.path.dirname(os.path.dirname(os.path.abspath(__file__)))
checks = []
for pid, c in sorted(md.CHECKS.items()):
    checks.append({
        "property_id": pid,
        "quick_cmd": "python3 tools/check.py %s --tier quick" % pid,
        "thorough_cmd": "python3 tools/check.py %s --tier thorough" % pid,
        "evidence_file": "/verif/evidence/%s.json" % pid,
        "replay_cmd_template": "python3 tools/check.py %s --replay {path}" % pid,
        "engine": "tla-model-based",
        "level_claimed": {"category": "model_checking", "text": c["text"], "design_ref": c["design_ref"]},
        "level_note": c["note"],
        "technique": c["technique"],
    })
m = {
    "version": 1,
    "setup_cmd": "python3 tools/check.py --setup",
    "hooks": {
        "guard": "verif",
        "enable": "go test -tags verif -overlay /verif/.work/overlay.json (hooks are calls to internal/vhook.At, which is an empty function unless built with -tags verif)",
        "baseline_off_cmd": md.BASELINE_OFF,
        "source_commits": md.HOOK_COMMITS,
        "add_only": True,
    },
    "engines": [{
        "name": "tla-model-based",
        "path": "/verif/tools/check.py",
        "serves_properties": sorted(md.CHECKS.keys()),
        "kind_free_text": "explicit TLA+ specification (spec/*.tla) checked exhaustively by TLC on bounded configs; bound to the Go code both ways: TLC-generated behaviours replayed on the real objects and ndjson traces recorded from the real code validated by TLC (Trace_*.tla), the spec's monitors deciding",
    }],
    "checks": checks,
    "notes": md.NOTES,
    "not_applicable": md.NOT_APPLICABLE,
}
json.dump(m, open(os.path.join(ROOT, "MANIFEST.json"), "w"), indent=1)
print("MANIFEST.json: %d checks, %d not_applicable" % (len(checks), len(md.NOT_APPLICABLE)))
