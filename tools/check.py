#!/usr/bin/env python3
"""check.py <Cnn> --tier quick|thorough   (cwd=/verif; honours VERIF_SEED, VERIF_TIER)
   check.py --setup                       (warm build caches, verify tools)
Exit 0 = property held on everything explored; 1 = VIOLATION (observed on real code,
judged by the TLA+ monitors); 2 = inconclusive (tool failure / model drift)."""
import argparse, importlib, os, sys, traceback
sys.path.insert(0, os.path.dirname(os.path.abspath(__file__)))
import core


def main():
    ap = argparse.ArgumentParser()
    ap.add_argument("prop", nargs="?")
    ap.add_argument("--tier", default=os.environ.get("VERIF_TIER", "quick"))
    ap.add_argument("--setup", action="store_true")
    ap.add_argument("--replay")
    a = ap.parse_args()
    os.chdir(core.ROOT)
    if a.setup:
        import setup_env
        sys.exit(setup_env.main())
    seed = int(os.environ.get("VERIF_SEED", "1") or 1)
    tier = a.tier if a.tier in ("quick", "thorough") else "quick"
    prop = a.prop.upper()
    if a.replay and a.replay.endswith(".json"):
        # a replay file written by core.finish: re-run the same scripts (same seed and tier); engines that
        # write richer replay files (ndjson scripts) read ctx.replay themselves
        try:
            import json
            r = json.load(open(a.replay))
            seed = int(r.get("seed", seed))
            tier = r.get("tier", tier)
            print("replaying %s: seed=%d tier=%s signature=%s" % (a.replay, seed, tier, json.dumps(r.get("signature"))))
        except Exception as e:
            print("could not read replay file: %s" % e)
    ctx = core.Ctx(prop, tier, seed)
    ctx.replay = a.replay
    try:
        eng = importlib.import_module("engines." + prop.lower())
        eng.run(ctx)
    except core.Inconclusive as e:
        ctx.inconclusive.append(str(e))
    except Exception:
        ctx.inconclusive.append("engine crashed:\n" + traceback.format_exc())
    rc = core.finish(ctx, level=getattr(ctx, "level", "model_checking"))
    sys.exit(rc)


if __name__ == "__main__":
    main()
