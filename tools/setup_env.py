"""check.py --setup: offline build of everything the checks need (from files on disk only)."""
import os, shutil, subprocess, sys
import core


def main():
    ok = True
    for tool in ("java", "go", "python3"):
        if shutil.which(tool) is None:
            print("missing tool:", tool)
            ok = False
    if not os.path.exists("/opt/veriftools/tla/tla2tools.jar"):
        print("missing tla2tools.jar")
        ok = False
    os.makedirs(core.WORK, exist_ok=True)
    core.build_overlay()
    # warm the Go build cache: compile the test binaries of every package that has overlay harness files
    base = os.path.join(core.ROOT, "harness/overlay")
    pkgs = set()
    for d, _, files in os.walk(base):
        if any(f.endswith(".go") for f in files):
            pkgs.add("./" + os.path.relpath(d, base))
    for pkg in sorted(pkgs):
        tags = "verif,conn_insecure" if pkg.startswith("./internal/core") else "verif"
        try:
            core.go_build_test(pkg, tags=tags)
            print("built", pkg, "(tags %s)" % tags)
        except core.Inconclusive as e:
            # not fatal: every check rebuilds what it needs and reports a build failure itself
            print("WARN: could not pre-build", pkg, str(e)[-800:])
    # TLC smoke test
    r = core.run_tlc(os.path.join(core.WORK, "setup-tlc"), "PartialCache", "MC_PartialCache_single.cfg", timeout=300)
    print("TLC smoke test:", "ok" if r.ok() else "FAILED", r.distinct, "states")
    ok = ok and r.ok()
    return 0 if ok else 1
