#!/bin/bash
# usage: tools/seedtest.sh <patch.diff> <prop> [<prop>...]   -- runs quick checks against a scratch worktree with the patch applied
set -u
PATCH=$(realpath "$1"); shift
WT=/tmp/seedwt-$$
git -C /repo worktree add --detach "$WT" HEAD -q || exit 3
if ! git -C "$WT" apply "$PATCH"; then echo "PATCH DOES NOT APPLY"; git -C /repo worktree remove --force "$WT"; exit 3; fi
(cd "$WT" && GOFLAGS=-mod=mod GOPROXY=off go build ./... ) || { echo "DOES NOT BUILD"; git -C /repo worktree remove --force "$WT"; exit 3; }
cd /verif
for p in "$@"; do
  VERIF_REPO="$WT" VERIF_SEED=${VERIF_SEED:-1} python3 tools/check.py "$p" --tier quick > "/verif/.work/seedtest-$p-$$.log" 2>&1
  rc=$?
  echo "== $p rc=$rc"; grep -E "^VIOLATION|^  what|^INCONCLUSIVE|KNOWN-FINDING" "/verif/.work/seedtest-$p-$$.log" | cut -c1-400 | head -8
done
git -C /repo worktree remove --force "$WT"
rm -rf /verif/.work/*-$(python3 -c "import hashlib;print(hashlib.sha1('$WT'.encode()).hexdigest()[:8])")* 2>/dev/null
