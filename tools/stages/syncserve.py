"""Stage: SyncChain + callbackStore (sync_manager.go, store.go) <-> spec/SyncServe.tla.
Serves C11 (a stream delivers every round once, in order, from the requested round) and the
callback half of C12 (storing a beacon / serving others never waits on a consumer that does not read).

1. exhaustive TLC on the design configs (MC_SyncServe*.cfg); the monitors that the code-faithful
   design does not keep are reported by TLC as model counterexamples (never a verdict);
2. spec -> code: Sim_SyncServe enumerates ALL maximal behaviours of the small bounded model (history
   in the state, eager internal steps) and samples the larger ones (-simulate); every behaviour is
   replayed on the real SyncChain/callbackStore with gates (TestVerifServe);
3. code -> spec: the recorded traces (gated replays, un-gated concurrent soak, stalled-consumer runs at
   the real queue capacity) are validated by Trace_SyncServe.tla, whose monitors raise the alarms."""
import os, re, json, shutil
from concurrent.futures import ThreadPoolExecutor
import core
from stages.common import *

MON_C11 = {"NoRepeat", "InOrder", "NoGap", "FromStart", "DigestOk", "LiveComplete", "Refusal", "StoredButNeverDispatched", "BeforeStart"}
MON_C12_CALLBACKS = {"PutNeverWaitsOnConsumer", "OthersServed"}
PKG = "./internal/chain/beacon"
SHARDS = 4


def _consts(cfg):
    """constants of a Sim cfg that the Go harness needs to build the same initial situation"""
    txt = open(os.path.join(core.SPEC, cfg)).read()
    def g(name, d=None):
        m = re.search(r"^\s*%s\s*=\s*(.+)$" % name, txt, re.M)
        return m.group(1).strip() if m else d
    return {"backend": g("Backend").strip('"'), "init": int(g("InitHead")), "buf": int(g("Buf")),
            "sameaddr": g("SameAddr") == "TRUE"}


def _scripts(ctx, res, cfg, prefix, impl=None, limit=None):
    c = _consts(cfg)
    out = []
    for i, (tag, obj) in enumerate(core.parse_vp_prints(res.prints)):
        if not obj:
            continue
        out.append({"name": "%s-%s-%d" % (prefix, "cex" if tag == "CEX" else "beh", i),
                    "backend": impl or c["backend"], "init": c["init"], "buf": c["buf"], "sameaddr": c["sameaddr"],
                    "steps": obj["steps"], "sent": obj["sent"], "why": obj["why"], "wpc": obj["wpc"], "tags": obj["tags"],
                    # both cases of SyncChain's final select were ready: Go picks one at random
                    "nondet": any(st["a"] == "End" and st["x"] == 1 for st in obj["steps"])})
    if limit and len(out) > limit:
        # seed-selected sample, counterexamples first
        import random
        rnd = random.Random(ctx.seed)
        cex = [s for s in out if "-cex-" in s["name"]]
        beh = [s for s in out if "-cex-" not in s["name"]]
        rnd.shuffle(cex); rnd.shuffle(beh)
        out = (cex[:limit // 2] + beh)[:limit]
    return out


def _enumerate(ctx, cfg, prefix, impl=None, limit=None, timeout=300):
    r = ctx.model_check("Sim_SyncServe", cfg, name="enum-" + prefix, workers=4, timeout=timeout)
    if not r.finished:
        ctx.inconclusive.append("behaviour enumeration %s did not finish" % cfg)
    return _scripts(ctx, r, cfg, prefix, impl, limit)


def _simulate(ctx, cfg, prefix, num, depth, impl=None):
    r = ctx.model_check("Sim_SyncServe", cfg, name="sim-" + prefix, workers=1, simulate="num=%d" % num,
                        depth=depth, seed=ctx.seed, timeout=600)
    return _scripts(ctx, r, cfg, prefix, impl)


def _harness(ctx, tag, scripts, builtin):
    """one process of the overlay test; returns the trace path"""
    env = {"VERIF_SHARD": str(tag)}
    if getattr(ctx, "_vsv_dbdir", None):
        env["VERIF_DBDIR"] = ctx._vsv_dbdir
    if scripts is not None:
        inp = os.path.join(ctx.work, "serve-scripts-%s.ndjson" % tag)
        write_scripts(inp, scripts)
        env["VERIF_IN"] = inp
    if builtin:
        if "@" in builtin:
            builtin, env["VERIF_VSV_BACKENDS"] = builtin.split("@")
        env["VERIF_VSV_BUILTIN"] = builtin
    else:
        env["VERIF_NOBUILTIN"] = "1"
    return run_harness(ctx, PKG, "TestVerifServe", "serve-%s.ndjson" % tag, env=env, timeout=900)


def _replay_file(ctx, sig, text, script):
    """replays/<prop>-<hash>.json: the gated script (TLC behaviour) that showed the alarm; re-executed by
    `check.py <prop> --replay <file>`"""
    import hashlib
    key = json.dumps(sig, sort_keys=True)
    path = os.path.join(core.ROOT, "replays", "%s-%s.json" % (ctx.prop, hashlib.sha1(key.encode()).hexdigest()[:10]))
    os.makedirs(os.path.dirname(path), exist_ok=True)
    with open(path, "w") as fh:
        json.dump({"property": ctx.prop, "seed": ctx.seed, "tier": ctx.tier, "signature": sig, "what": text,
                   "stage": "syncserve", "script": script}, fh, indent=1)
    return path


def run(ctx, monitors):
    q = ctx.quick
    rp = getattr(ctx, "replay", None)
    if rp:
        doc = json.load(open(rp))
        if doc.get("stage") != "syncserve" or not doc.get("script"):
            raise core.Inconclusive("replay file %s carries no SyncServe script" % rp)
        return _judge(ctx, monitors, [doc["script"]], [(1, [doc["script"]], None)])
    c11 = bool(monitors & MON_C11)
    c12 = bool(monitors & MON_C12_CALLBACKS)
    # ------------------------------------------------------------------ 1. design level (jobs run 4 at a time)
    mc = []      # (cfg, expect_ok)
    if c11:
        mc.append(("MC_SyncServe.cfg" if not q else "MC_SyncServe_quick.cfg", True))
        if not q:
            # memdb: round-based live cursor over the ring buffer; its scan skips no stored round
            mc += [("MC_SyncServe_mem.cfg", True), ("MC_SyncServe_same.cfg", True), ("MC_SyncServe_memevict.cfg", True)]
        mc += [("MC_SyncServe_%s.cfg" % m, False) for m in ("NoGap", "NoRepeat", "LiveComplete")]
        # a client that stalls and resumes: the design blocks the writer, it never drops a round
        mc.append(("MC_SyncServe_resume.cfg", True))
        if not q:
            mc += [(c, False) for c in ("MC_SyncServe_sameLive.cfg", "MC_SyncServe_w2.cfg", "MC_SyncServe_memseek.cfg")]
    if c12:
        if not q:
            mc.append(("MC_SyncServe_stall.cfg", True))
        mc += [("MC_SyncServe_%s.cfg" % m, False) for m in ("PutNeverWaits", "OthersServed", "remap")]
        # same-address replacement while the predecessor's consumer is stalled: the design keeps the
        # replacement served (Mon_ReplacementServed)
        mc.append(("MC_SyncServe_replstall_quick.cfg" if q else "MC_SyncServe_replstall.cfg", True))
    # ------------------------------------------------------------------ 2. behaviours from TLC
    gen = []     # callables returning script lists
    if c11:
        # the complete set of maximal behaviours of the bounded model (1 stream, 2 appends, 4 start rounds)
        gen.append(lambda: _enumerate(ctx, "Sim_SyncServe.cfg", "all-bolt"))
        if not q:
            gen.append(lambda: _enumerate(ctx, "Sim_SyncServe_mem.cfg", "all-mem"))
            gen.append(lambda: _enumerate(ctx, "Sim_SyncServe_w2.cfg", "w2-bolt", limit=600))
            gen.append(lambda: _enumerate(ctx, "Sim_SyncServe_memevict.cfg", "evict-mem", limit=300))
            gen.append(lambda: _simulate(ctx, "Sim_SyncServe_two.cfg", "two-boltu", 100, 200, impl="boltu"))
        else:
            gen.append(lambda: _enumerate(ctx, "Sim_SyncServe_w2.cfg", "w2-bolt", limit=60))
            # memdb sample: scans over a full ring buffer (every Put evicts the oldest round)
            gen.append(lambda: _enumerate(ctx, "Sim_SyncServe_memevict_quick.cfg", "evict-mem", limit=40))
        # the writer's context is cancelled right after the write committed / before the write
        gen.append(lambda: [sc for sc in _enumerate(ctx, "Sim_SyncServe_wcancel.cfg", "wcancel-bolt", timeout=600)
                            if any(st["a"] in ("StoreC", "PutAborted") for st in sc["steps"])][:: (12 if q else 1)])
        n = 40 if q else 400
        gen.append(lambda: _simulate(ctx, "Sim_SyncServe_two.cfg", "two-bolt", n, 200))
        gen.append(lambda: _simulate(ctx, "Sim_SyncServe_same.cfg", "same-bolt", 150 if q else 600, 200))
    if c12:
        gen.append(lambda: _simulate(ctx, "Sim_SyncServe_q100.cfg", "q100-bolt", 2 if q else 6, 3000))
        gen.append(lambda: _simulate(ctx, "Sim_SyncServe_replstall.cfg", "replstall-bolt", 16 if q else 200, 300))

    prior_exhaustive = ctx.exhaustive
    complete = []

    def do_mc(job):
        cfg, expect = job
        r = ctx.model_check("SyncServe", cfg, expect_ok=expect, workers=4)
        if expect:
            complete.append(bool(r.finished))
        if not expect:
            ctx.notes.append("design model %s: %s" % (cfg, ("%s violated (model counterexample, depth %s)" % (r.violated, r.depth))
                                                      if r.violated else "monitor holds"))
        return []
    with ThreadPoolExecutor(max_workers=4) as ex:
        futs = [ex.submit(do_mc, j) for j in mc] + [ex.submit(g) for g in gen]
        scripts = []
        for f in futs:
            scripts += f.result()
    # the monitor configs stop at their first (expected) counterexample; "exhaustive" refers to the
    # configs of the complete state graph and to the behaviour enumerations
    ctx.exhaustive = prior_exhaustive and all(complete) and not any("enumeration" in m for m in ctx.inconclusive)
    if c11 and not q:
        scripts += [dict(s, backend="boltu", name=s["name"].replace("all-bolt", "all-boltu"))
                    for s in scripts if s["name"].startswith("all-bolt-")]
    ncex = sum(1 for s in scripts if "-cex-" in s["name"])
    ctx.notes.append("TLC behaviours replayed on the real SyncChain/callbackStore: %d (%d of them violate a monitor on the design model)"
                     % (len(scripts), ncex))
    # ------------------------------------------------------------------ 3. real code
    jobs = []
    k = max(1, min(SHARDS, len(scripts) // 50 + 1))
    for i in range(k):
        jobs.append((i + 1, scripts[i::k], None))
    builtin = ",".join((["soak", "slowresume"] if c11 else []) + (["stall", "scanstall", "replstall"] if c12 else []))
    if q:
        jobs.append((0, None, builtin))
    else:
        for j, be in enumerate(("bolt", "boltu", "mem")):
            jobs.append((10 + j, None, builtin + "@" + be))
    return _judge(ctx, monitors, scripts, jobs)


def _public(ctx):
    """the real BeaconProcess.PublicRandStream wrapper (internal/core) for every start round of the domain"""
    return run_harness(ctx, "./internal/core", "TestVerifServePublic", "serve-public.ndjson", env={}, timeout=600,
                       tags="verif,conn_insecure")


def _judge(ctx, monitors, scripts, jobs):
    bin_for(ctx, PKG)            # build once, before the shards start
    public = bool(monitors & MON_C11) and not getattr(ctx, "replay", None)
    if public:
        bin_for(ctx, "./internal/core", "verif,conn_insecure")
    # database files of the scenarios live on tmpfs when there is one (an fsync on the work disk costs
    # ~0.1 s, a scenario does several); the directory is created and removed by this run
    ctx._vsv_dbdir = None
    if os.path.isdir("/dev/shm") and os.access("/dev/shm", os.W_OK):
        ctx._vsv_dbdir = "/dev/shm/verif-vsv-%d" % os.getpid()
        os.makedirs(ctx._vsv_dbdir, exist_ok=True)
    try:
        with ThreadPoolExecutor(max_workers=len(jobs) + 1) as ex:
            pub = ex.submit(_public, ctx) if public else None
            traces = list(ex.map(lambda j: _harness(ctx, *j), jobs))
            if pub:
                traces.append(pub.result())
    finally:
        if ctx._vsv_dbdir:
            shutil.rmtree(ctx._vsv_dbdir, ignore_errors=True)
    byname = {s["name"]: s for s in scripts}
    # ------------------------------------------------------------------ 4. trace validation
    def val(tp):
        return ctx.validate_trace("Trace_SyncServe", "Trace_SyncServe.cfg", tp,
                                  name="trace-" + os.path.basename(tp).replace(".ndjson", ""), timeout=1500)
    with ThreadPoolExecutor(max_workers=len(traces)) as ex:
        results = list(ex.map(val, traces))
    allok = True
    replays = {}
    drift = []
    optimistic = []
    seen = {}
    for tp, (ok, alarms, res) in zip(traces, results):
        allok = allok and ok
        with open(tp.replace(".ndjson", "-alarms.json"), "w") as fh:
            json.dump(alarms, fh, indent=0)
        if ok:
            ctx.traces += count_lines(tp, "Reset")
        for a in alarms:
            if a["mon"] in monitors:
                key = (a["mon"], a["shape"])
                seen[key] = seen.get(key, 0) + 1
                sig = {"stage": "syncserve", "mon": a["mon"], "shape": a["shape"]}
                text = ("SyncChain/callbackStore: monitor %s failed (%s, %s) in scenario %s at line %s of %s"
                        % (a["mon"], a["shape"], a["detail"], a["scenario"], a["line"], os.path.basename(tp)))
                known = any(k.get("property") == ctx.prop and k.get("status") == "known" and core.sig_matches(k["signature"], sig)
                            for k in core.load_known())
                rfile = None
                if not known and key not in replays and a["scenario"] in byname:
                    replays[key] = rfile = _replay_file(ctx, sig, text, byname[a["scenario"]])
                ctx.alarm(sig, text, replay=rfile or replays.get(key))
            elif a["mon"] == "Conformance":
                drift.append(a)
            elif a["mon"] == "Optimistic":
                optimistic.append(a)
    ctx.sample({"stage": "syncserve", "trace_head": sample_lines(traces[-1], 4, 300)})
    ctx.notes.append("monitor alarms on observed executions by (monitor, shape): %s"
                     % ", ".join("%s/%s x%d" % (k[0], k[1], v) for k, v in sorted(seen.items())))
    if optimistic:
        # the real code did better than the code-faithful design predicts (e.g. a defect was repaired): a
        # note, the monitors judge the observed executions either way
        ctx.notes.append("%d replayed behaviours did NOT show a monitor failure that SyncServe.tla predicts, first: %s"
                         % (len(optimistic), optimistic[0]["scenario"]))
    if drift:
        ctx.inconclusive.append("SyncServe: %d differences between the real code and the behaviour predicted by SyncServe.tla "
                                "(model drift or an un-executable step), first: %s" % (len(drift), drift[0]))
    ctx.assumptions += [
        "gRPC is replaced by an in-process SyncStream whose Send is gated/blocked/fails; flow control of a real connection is represented by a Send that does not return",
        "PublicRandStream (internal/core) is driven through its real wrapper for every start round of the domain (free-running, memdb); the gated interleavings are driven on beacon.SyncChain, which the wrapper calls",
        "bolt files of the gated scenarios are pre-sized so that no Put has to re-map the file while a scan is open (the re-map hole is exhibited separately)",
    ]
    return allok
