"""Stage: DKG execution / completion with several nodes (internal/dkg) <-> spec/DKGExec.tla.
Serves C06 (a completed DKG leaves all nodes with one group and matching key shares).

  1. design level: exhaustive TLC of the multi-node ceremony model (delivery orders of gossip
     and kyber bundles with the echo broadcast, start order, phase timeouts, one late node,
     leavers, every key order x every listing order, completion times in a window that contains
     a round boundary).  A violated invariant here is a *model* counterexample, never a verdict.
  2. spec -> code: the counterexample(s) and TLC -simulate walks of the same model are the
     scripts that the Go harness replays on REAL dkg.Process networks (real bolt stores, real
     signatures, the real kyber DKG, a scheduled in-memory net.DKGClient, two vhook gates).
  3. code -> spec: TLC (Trace_DKGExec) re-applies the specification's operators to every
     recorded call (Conformance) and evaluates the TLA+ monitors on what the nodes hold at
     completion.  Only monitor failures become alarms.
"""
import concurrent.futures, json, os, re
import core
from stages.common import *

MON_C06 = {"SameGroup", "OrderIndependent", "OwnIndex", "ShareOnPoly", "ThresholdSigns"}
DRIFT = {"Conformance"}

PERIOD, GENESIS, TMIN, TMAX = 3, 100, 110, 112

BASE_INV = "TypeOK Inv_SameTerms Inv_OrderIndependent Inv_OwnIndex Inv_SameQual Inv_NoLoss Inv_EchoHeals Inv_SameGroupButTransition"


def _set(xs):
    return "{" + ", ".join(str(x) for x in xs) + "}"


def _cfg(shape, sim=False, depth=160, maxdup=4, invs=None):
    n = shape["n"]
    lines = ["SPECIFICATION %s" % ("SimSpec" if sim else "Spec"), "CONSTANTS",
             "  Nodes = %s" % _set(range(1, n + 1)),
             "  Epoch = %d" % shape["epoch"],
             "  JoinSet = %s" % _set(shape.get("join", [])),
             "  RemainSet = %s" % _set(shape.get("remain", [])),
             "  LeaveSet = %s" % _set(shape.get("leave", [])),
             "  Leader = %d" % shape["leader"],
             "  Thr = %d" % shape["thr"],
             "  Period = %d" % PERIOD, "  Genesis = %d" % GENESIS,
             "  TMin = %d" % shape.get("tmin", TMIN), "  TMax = %d" % shape.get("tmax", TMAX),
             "  LateSet = %s" % _set(shape.get("late", [])),
             "  RankChoices <- %s" % (("SimRanks" if sim else shape.get("ranks", "RotRank"))),
             "  PermuteLists = %s" % ("TRUE" if (sim or shape.get("perm")) else "FALSE"),
             "  AtomicGossip = %s" % ("TRUE" if shape.get("ag") else "FALSE"),
             "  AtomicExec = %s" % ("TRUE" if shape.get("ae") else "FALSE"),
             "  MaxDrop = %d" % shape.get("drop", 0),
             "  DropKinds = {%s}" % ", ".join('"%s"' % k for k in shape.get("cover", ("D", "R", "J"))),
             "  Offline = %s" % _set(shape.get("offline", []))]
    if sim:
        lines += ["  Depth = %d" % depth, "  MaxDup = %d" % maxdup,
                  "  ShiftRanks = %s" % ("TRUE" if shape.get("shift") else "FALSE")]
    else:
        lines += ["INVARIANTS " + (invs or (BASE_INV + " Inv_SameGroup")), "VIEW View"]
    lines.append("CHECK_DEADLOCK FALSE")
    return "\n".join(lines) + "\n"


# ceremony shapes (node ids 1..n; key order and listing order are chosen by TLC)
FIRST3 = dict(name="first3", n=3, epoch=1, join=[1, 2, 3], leader=1, thr=2)
FIRST4 = dict(name="first4", n=4, epoch=1, join=[1, 2, 3, 4], leader=2, thr=3)
RESHARE3 = dict(name="reshare3", n=3, epoch=2, remain=[1, 2, 3], leader=1, thr=2, prevThr=2)
RESHARE4 = dict(name="reshare4", n=4, epoch=2, remain=[1, 2, 3, 4], leader=3, thr=3, prevThr=3)
ADD = dict(name="add", n=4, epoch=2, join=[4], remain=[1, 2, 3], leader=2, thr=3, prevThr=2)
REMOVE = dict(name="remove", n=4, epoch=2, remain=[1, 2, 3], leave=[4], leader=1, thr=2, prevThr=3)
SWAP = dict(name="swap", n=4, epoch=2, join=[4], remain=[1, 2], leave=[3], leader=1, thr=2, prevThr=2)
FIRST5 = dict(name="first5", n=5, epoch=1, join=[1, 2, 3, 4, 5], leader=3, thr=3)
ADD5 = dict(name="add5", n=5, epoch=2, join=[5], remain=[1, 2, 3, 4], leader=4, thr=4, prevThr=3)
# one member is replaced in ONE proposal (a leaver and a joiner together): remainers run reshareDKGConfig,
# the joiner initialDKGConfig; variant: the leaver is switched off
SWAP5 = dict(name="swap5", n=5, epoch=2, join=[5], remain=[1, 2, 3], leave=[4], leader=1, thr=3, prevThr=3)
SWAP5OFF = dict(name="swap5off", n=5, epoch=2, join=[5], remain=[1, 2, 3], leave=[4], leader=2, thr=3, prevThr=3,
                offline=[4], ag=True)
LATE3 = dict(name="late3", n=3, epoch=1, join=[1, 2, 3], leader=1, thr=2, late=[3])
# one bundle lost on one directed link (only the echo can heal it); the joiner's key sorts before
# some member, so that indices in the old and the new group differ
ADDDROP = dict(name="adddrop", n=4, epoch=2, join=[4], remain=[1, 2, 3], leader=2, thr=3, prevThr=2, ag=True,
               drop=1, shift=True, cover=("D", "R"), simnum=400, tmin=TMIN, tmax=TMIN)
LATE4DROP = dict(name="late4drop", n=4, epoch=1, join=[1, 2, 3, 4], leader=1, thr=3, late=[2], ag=True,
                 drop=1, cover=("J",), simnum=200, tmin=TMIN, tmax=TMIN)
LATE4 = dict(name="late4", n=4, epoch=1, join=[1, 2, 3, 4], leader=1, thr=3, late=[2])


def _with(shape, **kw):
    d = dict(shape)
    d.update(kw)
    return d


def _exhaustive_jobs(quick):
    """(cfg name, shape, invariants or None, expect_ok)"""
    one = dict(tmin=TMIN, tmax=TMIN)   # no clock in the configs that explore delivery orders
    jobs = [
        ("first3", _with(FIRST3), None, True),
        ("reshare3", _with(RESHARE3, **one), None, True),
        ("late3", _with(LATE3, ag=True, tmax=TMIN + 1), None, True),
        ("remove", _with(REMOVE, ag=True, **one), None, True),
        ("swapoff", _with(SWAP, name="swapoff", offline=[3], ae=True, **one), None, True),
        ("swap5exec", _with(SWAP5, ag=True, **one), None, True),
        # one lost direct bundle on any link: the echo heals it, same outcome
        ("reshare3drop", _with(RESHARE3, ag=True, drop=1, **one), None, True),
        # every key order x every listing order, completion anywhere in the window
        ("perm3", _with(FIRST3, ag=True, ae=True, ranks="AllRanks", perm=True), None, True),
        ("permadd", _with(ADD, ag=True, ae=True, ranks="AllRanks", perm=True, **one), None, True),
        # the design question of F9: do nodes that complete a RESHARE at different local times agree?
        ("f9", _with(RESHARE3, ag=True, ae=True), None, False),
        ("f9holds", _with(RESHARE3, ag=True, ae=True), BASE_INV, True),
    ]
    if not quick:
        jobs += [
            ("swap", _with(SWAP, ag=True, **one), None, True),
            ("first4", _with(FIRST4, **one), None, True),
            ("addgossip", _with(ADD, ae=True, **one), None, True),
            ("addexec", _with(ADD, ag=True, **one), None, True),
            ("reshare4exec", _with(RESHARE4, ag=True, **one), None, True),
            ("late4", _with(LATE4, ag=True, **one), None, True),
            ("adddrop", _with(ADD, ag=True, drop=1, **one), None, True),
            ("late4drop", _with(LATE4, ag=True, drop=1, **one), None, True),
            ("first4drop", _with(FIRST4, ag=True, drop=1, **one), None, True),
            ("perm4", _with(FIRST4, ag=True, ae=True, ranks="AllRanks", perm=True), None, True),
            ("permswap", _with(SWAP, ag=True, ae=True, ranks="AllRanks", perm=True), BASE_INV, True),
        ]
    return jobs


def _record(ctx, module, cfg, r, expect_ok=True):
    ctx.states += r.distinct
    ctx.transitions += r.generated
    ctx.tlc_runs.append({"module": module, "cfg": cfg, "distinct": r.distinct, "generated": r.generated,
                         "depth": r.depth, "wall_s": round(r.wall, 1), "finished": r.finished,
                         "violated": r.violated, "error": r.error})
    ctx.log("TLC %s/%s: %d distinct / %d generated, depth %d, %.1fs%s%s" % (
        module, cfg, r.distinct, r.generated, r.depth, r.wall,
        " VIOLATED " + r.violated if r.violated else "", " ERROR " + str(r.error) if r.error else ""))
    if r.timeout:
        ctx.exhaustive = False
        ctx.inconclusive.append("TLC timeout on %s/%s" % (module, cfg))
    elif r.error:
        ctx.inconclusive.append("TLC error on %s/%s: %s\n%s" % (module, cfg, r.error, r.out[-1500:]))
    elif r.violated and expect_ok:
        ctx.inconclusive.append("model counterexample on %s/%s (%s) - not a verdict until reproduced on real code\n%s"
                                % (module, cfg, r.violated, r.out[-3000:]))
    if not r.finished and expect_ok:
        ctx.exhaustive = False


def _parse_ops(out):
    """`op` values of the states of a TLC error trace -> list of dicts"""
    ops = []
    for m in re.finditer(r"/\\ op = \[(.*?)\]", out, re.S):
        d = {}
        for kv in re.finditer(r"(\w+) \|-> (<<[^>]*>>|\"[^\"]*\"|-?\d+)", m.group(1)):
            k, v = kv.group(1), kv.group(2)
            if v.startswith("<<"):
                v = [int(x) for x in re.findall(r"-?\d+", v)]
            elif v.startswith('"'):
                v = v.strip('"')
            else:
                v = int(v)
            d[k] = v
        ops.append(d)
    return ops


def _round(now):
    return 1 if now < GENESIS else (now - GENESIS) // PERIOD + 1


def _steps(ops):
    """model actions -> harness steps; returns (steps, lists)"""
    steps, lists = [], {}
    for o in ops:
        nm = o.get("name")
        if nm in ("Propose", "GossipAll"):
            lists = {"join": o.get("join", []), "remain": o.get("remain", []), "leave": o.get("leave", [])}
            steps.append({"k": "propose" if nm == "Propose" else "gossipall"})
        elif nm in ("Join", "Accept"):
            steps.append({"k": nm.lower(), "n": o["n"]})
        elif nm == "Execute":
            steps.append({"k": "execute"})
        elif nm in ("GDeliver", "GDup"):
            steps.append({"k": "g" if nm == "GDeliver" else "gdup", "typ": o["typ"], "origin": o["origin"], "to": o["to"],
                          "from": o.get("from", 0)})
        elif nm in ("BDeliver", "BDup"):
            steps.append({"k": "b" if nm == "BDeliver" else "bdup", "typ": o["kind"], "origin": o["origin"], "to": o["to"]})
        elif nm == "BDrop":
            steps.append({"k": "bdrop", "typ": o["kind"], "origin": o["origin"], "to": o["to"]})
        elif nm in ("Start", "Timeout", "Complete", "Fail"):
            steps.append({"k": nm.lower(), "n": o["n"]})
        elif nm == "ExecAll":
            steps.append({"k": "execall"})
        elif nm == "Tick":
            # the harness waits for a real round boundary only where the model crosses one
            if _round(o["now"]) != _round(o["now"] - 1):
                steps.append({"k": "tick"})
    return steps, lists


def _script(name, cls, shape, rank, ops):
    steps, lists = _steps(ops)
    if not lists:
        return None
    return {"name": name, "class": cls, "keyTag": "shape-%d" % shape["n"], "epoch": shape["epoch"], "nodes": list(range(1, shape["n"] + 1)),
            "join": lists["join"], "remain": lists["remain"], "leave": lists["leave"],
            "leader": shape["leader"], "thr": shape["thr"], "prevThr": shape.get("prevThr", 0),
            "rank": [[i + 1, r] for i, r in enumerate(rank)], "late": shape.get("late", []),
            "offline": shape.get("offline", []),
            "period": 2, "policy": "script", "steps": steps}


def _design_jobs(ctx):
    """prepare the exhaustive runs; returns (jobs, thunks)"""
    jobs = _exhaustive_jobs(ctx.quick)
    per = max(2, min(4, core.NCPU // 4))
    tmo = 240 if ctx.quick else 1100
    thunks = []
    for name, shape, invs, _ in jobs:
        d = ctx.sub("MC_DKGExec_" + name)
        cfg = "MC_DKGExec_gen_%s.cfg" % name
        with open(os.path.join(d, cfg), "w") as fh:
            fh.write(_cfg(shape, invs=invs))
        thunks.append(lambda d=d, cfg=cfg: core.run_tlc(d, "MC_DKGExec", cfg, workers=per, timeout=tmo))
    return jobs, thunks


def _design_results(ctx, jobs, res):
    cex = None
    for (name, shape, invs, expect_ok), r in zip(jobs, res):
        _record(ctx, "MC_DKGExec", "MC_DKGExec_gen_%s.cfg" % name, r, expect_ok=expect_ok)
        if name == "f9":
            if r.violated == "Inv_SameGroup":
                ops = _parse_ops(r.out)
                rank = [(i % shape["n"]) + 1 for i in range(1, shape["n"] + 1)]   # MC_DKGExec!RotRank
                cex = _script("tlc-cex-f9", "tlc-cex-f9", shape, rank, ops)
                ctx.notes.append("design check (TLC, MC_DKGExec f9: resharing, completions anywhere in a window containing a "
                                 "round boundary): Inv_SameGroup VIOLATED on the model, %d-step counterexample %s; with the "
                                 "transition time excluded the invariant holds (f9holds)" %
                                 (len(ops), [o.get("name") + (str(o.get("n", "")) if o.get("n") else "") for o in ops[1:]]))
            elif r.finished:
                ctx.notes.append("design check (MC_DKGExec f9): Inv_SameGroup holds on the model")
    return cex


def _walk_jobs(ctx, shapes):
    thunks = []
    for i, (shape, num, depth) in enumerate(shapes):
        d = ctx.sub("Sim_DKGExec_" + shape["name"])
        cfg = "Sim_DKGExec_gen_%s.cfg" % shape["name"]
        with open(os.path.join(d, cfg), "w") as fh:
            fh.write(_cfg(shape, sim=True, depth=depth))
        thunks.append(lambda d=d, cfg=cfg, num=num, depth=depth, i=i, shape=shape: core.run_tlc(
            d, "Sim_DKGExec", cfg, workers=1, timeout=300 if ctx.quick else 1500, simulate="num=%d" % shape.get("simnum", 2 * num + 2), depth=depth + 5,
            seed=ctx.seed * 101 + i))
    return thunks


def _walk_results(ctx, shapes, res):
    """TLC -simulate walks per shape -> scripts"""
    scripts = []
    for (shape, num, depth), r in zip(shapes, res):
        ctx.tlc_runs.append({"module": "Sim_DKGExec", "cfg": "Sim_DKGExec_gen_%s.cfg" % shape["name"], "distinct": r.distinct,
                             "generated": r.generated, "wall_s": round(r.wall, 1), "finished": r.finished,
                             "violated": r.violated, "error": r.error, "simulate": True})
        if r.error or r.timeout:
            ctx.inconclusive.append("TLC simulation failed on Sim_DKGExec/%s: %s\n%s" % (shape["name"], r.error or "timeout", r.out[-1500:]))
            continue
        seen, k = set(), 0
        cover = shape.get("cover")
        links = set()
        for tag, obj in core.parse_vp_prints(r.prints):
            if not obj or not obj.get("complete"):
                continue
            key = json.dumps(obj, sort_keys=True)
            if key in seen:
                continue
            seen.add(key)
            if cover:
                # one walk per lost link: every directed link of the covered bundle kinds, up to `num`
                d = [(o["kind"], o["origin"], o["to"]) for o in obj["hist"] if o.get("name") == "BDrop"]
                if not d or d[0][0] not in cover or d[0] in links or k >= num or d[0][2] in shape.get("late", []):
                    continue
                links.add(d[0])
            elif k >= num:
                break
            cls = "tlc-%s-%s" % ("cex" if tag == "CEX" else "walk", shape["name"])
            s = _script("%s-%d" % (cls, k), cls, shape, obj["rank"], obj["hist"])
            if s:
                scripts.append(s)
                k += 1
        ctx.log("TLC walks for %s: %d scripts%s" % (shape["name"], k, (" (lost links %s)" % sorted(links)) if cover else ""))
        if k == 0:
            ctx.inconclusive.append("TLC simulation produced no complete walk for shape %s" % shape["name"])
    return scripts


def run(ctx, monitors):
    q = ctx.quick
    if q:
        shapes = [(FIRST3, 2, 170), (RESHARE3, 2, 200), (ADD, 1, 260), (REMOVE, 1, 220), (LATE3, 1, 170),
                  (_with(RESHARE3, name="reshare3atomic", ag=True, ae=True), 2, 40),
                  (ADDDROP, 12, 150), (LATE4DROP, 2, 170), (SWAP5, 1, 330), (SWAP5OFF, 1, 220)]
    else:
        shapes = [(FIRST3, 8, 170), (FIRST4, 6, 300), (FIRST5, 3, 460), (RESHARE3, 8, 200), (RESHARE4, 4, 330), (ADD, 6, 260),
                  (ADD5, 2, 480), (REMOVE, 4, 220), (SWAP, 4, 220), (SWAP5, 4, 330), (SWAP5OFF, 3, 220),
                  (_with(SWAP, name="swapoff", offline=[3]), 3, 220), (LATE3, 4, 170), (LATE4, 3, 300),
                  (_with(RESHARE3, name="reshare3atomic", ag=True, ae=True), 8, 40),
                  (_with(ADD, name="addatomic", ag=True, ae=True), 6, 40),
                  (_with(ADDDROP, simnum=600), 21, 150), (_with(LATE4DROP, simnum=300), 6, 170),
                  (_with(SWAP, name="swapdrop", ag=True, drop=1, cover=("D", "R"), simnum=500, tmin=TMIN, tmax=TMIN), 8, 150),
                  (_with(FIRST4, name="first4drop", ag=True, drop=1, cover=("D", "R"), simnum=400, tmin=TMIN, tmax=TMIN), 6, 150)]
    # 1. design level (exhaustive) and 2. behaviour generation run side by side, while the test
    #    binary is built from the current tree
    jobs, dthunks = _design_jobs(ctx)
    wthunks = _walk_jobs(ctx, shapes)
    with concurrent.futures.ThreadPoolExecutor(6) as ex:
        fbuild = ex.submit(lambda: bin_for(ctx, "./internal/dkg"))
        fd = [ex.submit(t) for t in dthunks]
        fw = [ex.submit(t) for t in wthunks]
        dres = [f.result() for f in fd]
        wres = [f.result() for f in fw]
        fbuild.result()
    cex = _design_results(ctx, jobs, dres)
    scripts = _walk_results(ctx, shapes, wres)
    if cex:
        scripts.insert(0, cex)
    ncex = sum(1 for s in scripts if "-cex" in s["class"])
    ctx.notes.append("TLC behaviours replayed on real dkg.Process networks: %d scripts (%d of them model counterexamples of Inv_SameGroup)"
                     % (len(scripts), ncex))
    inp = os.path.join(ctx.work, "dkgexec-scripts.ndjson")
    write_scripts(inp, scripts)
    # 3. real code
    trace = run_harness(ctx, "./internal/dkg", "TestVerifDKGExec", "dkgexec.ndjson", env={"VERIF_IN": inp},
                        timeout=600 if q else 2400)
    # 4. code -> spec
    ok, alarms, res = ctx.validate_trace("Trace_DKGExec", "Trace_DKGExec.cfg", trace, timeout=1500)
    ncer = count_lines(trace, "Reset")
    ncomp = count_lines(trace, "Complete")
    aborted = [a for a in alarms if a["mon"] == "Aborted"]
    if ok:
        ctx.traces += ncer - len(aborted)
    ctx.notes.append("ceremonies run on real code: %d (%d node completions observed), skipped script steps: %d"
                     % (ncer, ncomp, count_lines(trace, "Skip")))
    ctx.sample({"stage": "dkgexec", "trace_head": sample_lines(trace, 2, 600)})
    for line in open(trace):
        if '"ev":"Complete"' in line and '"epoch":2' in line:
            ctx.sample({"stage": "dkgexec", "completion": line.strip()[:700]})
            break
    drift = []
    for a in alarms:
        if a["mon"] in monitors:
            sig = {"stage": "dkgexec", "mon": a["mon"], "field": a.get("field", ""), "shape": a.get("shape", ""),
                   "epoch": a.get("epoch", 0)}
            ctx.alarm(sig, "DKG execution: monitor %s failed at trace line %s (%s%s%s; ceremony %s of class %s, epoch %s)" % (
                a["mon"], a["line"], a["detail"],
                (", field " + a["field"]) if a.get("field") else "", (", " + a["shape"]) if a.get("shape") not in ("", "none", None) else "",
                a["scenario"], scen_class(a["class"]), a.get("epoch")))
        elif a["mon"] in DRIFT:
            drift.append(a)
    if aborted:
        ctx.inconclusive.append("dkgexec: %d ceremonies did not finish within their wall-clock caps (never a verdict), first: %s"
                                % (len(aborted), {k: aborted[0][k] for k in ("scenario", "detail")}))
    if drift:
        ctx.inconclusive.append("dkgexec: %d conformance differences between internal/dkg and DKGExec.tla (model drift), first: %s"
                                % (len(drift), drift[0]))
    return ok
