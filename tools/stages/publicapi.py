"""Stage: BeaconProcess.PublicRand / PublicRandStream (internal/core/drand_beacon_public.go) <-> spec/PublicRand.tla.
The complete labelled state graph of the model (a request racing with stored beacons) is turned into a
transition tour and replayed on a real BeaconProcess over a real Handler store stack with really signed
beacons; the request is parked between its Last() read and the callback registration.  Serves C01."""
import os
import core, graph
from stages.common import *

MON_C01 = {"RightRound", "AnswerUnverifiable", "RandomnessNotHash"}
TAGS = "verif,conn_insecure"


def run(ctx, monitors, scheme=None):
    d = ctx.sub("graph-publicrand")
    r, dot = graph.dump_graph(d, "PublicRand", "MC_PublicRand.cfg")
    ctx.states += r.distinct
    ctx.transitions += r.generated
    ctx.tlc_runs.append({"module": "PublicRand", "cfg": "MC_PublicRand.cfg", "distinct": r.distinct, "generated": r.generated,
                         "finished": r.finished, "violated": r.violated, "error": r.error, "wall_s": round(r.wall, 1)})
    if not r.ok():
        ctx.inconclusive.append("PublicRand model check failed: %s %s" % (r.violated, r.error))
        return False
    tour, ns, ne = graph.tour(dot)
    scripts = []
    for i, sc in enumerate(tour):
        steps = [{"op": name, "r": (args[0] if args else 0)} for name, args in sc]
        scripts.append({"name": "tour-%d" % i, "h0": 2, "steps": steps})
    ctx.notes.append("PublicRand: %d states, %d edges, tour of %d scenarios" % (ns, ne, len(scripts)))
    inp = os.path.join(ctx.work, "publicapi-scripts.ndjson")
    write_scripts(inp, scripts)
    env = {"VERIF_IN": inp}
    if scheme:
        env["SCHEME_ID"] = scheme
    trace = run_harness(ctx, "./internal/core", "TestVerifPublicAPI", "publicapi-%s.ndjson" % (scheme or "default"), env=env, timeout=900, tags=TAGS)
    ok, alarms, res = ctx.validate_trace("Trace_PublicRand", "Trace_PublicRand.cfg", trace, name="trace-publicapi")
    if ok:
        ctx.traces += count_lines(trace, "Init")
    ctx.sample({"stage": "publicapi", "trace_head": sample_lines(trace, 4, 200)})
    drift = [a for a in alarms if a["mon"] == "Conformance"]
    for a in alarms:
        if a["mon"] in monitors or a["mon"] == "StreamOrder" and "StreamOrder" in monitors:
            ctx.alarm({"stage": "publicapi", "mon": a["mon"], "detail": a["detail"]},
                      "PublicRand: monitor %s failed at trace line %s (%s) in %s" % (a["mon"], a["line"], a["detail"], a["scenario"]))
    if drift:
        ctx.inconclusive.append("PublicRand: %d conformance differences vs PublicRand.tla, first: %s" % (len(drift), drift[0]))
    return ok
