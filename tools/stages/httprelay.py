"""Stage: the public HTTP API (handler/http/server.go) <-> spec/HttpRelay.tla.  HTTP part of C01.

1. design level: TLC explores HttpRelay exhaustively (2 request slots, rounds 1..4, any watch stream: items may
   skip / repeat, the stream may fail or be re-opened between any two steps, wall clock may tick) with the C01
   monitor as an invariant.  Two more configs (monotone streams) keep searching for the two shapes in which the
   handler used to break it (F12 a/b, repaired): empty 200 after a skipped round, a later round after a reset.
2. spec -> code: a transition tour of the complete labelled state graph of a smaller instance (every
   (state, action) edge at least once) and any model counterexample become step scripts.
3. the Go harness replays them on the REAL DrandHandler (scripted client.Client over a fabricated valid chain,
   one gate between the two looks of getRand) and records every response with oracle booleans.
4. code -> spec: Trace_HttpRelay evaluates the monitor on the observed responses (TLC decides) and reports any
   difference between handler and specification as Conformance (model drift, exit 2).
"""
import collections, hashlib, json, os, random, re
import core
from stages.common import *

MON_C01_HTTP = {"Mon_C01_HTTP"}
MON_C14_HTTP = {"RelayNotWedged"}           # run_c14: no request leaves pendingLk held / the watch loop stopped
MON_HTTP_INFO = {"Mon_HTTP_Info"}          # /info returns the named chain's info (not part of C01's statement)
DRIFT = {"Conformance", "Harness"}
PKG = "./handler/http"
WALK_LEN = 16
SCHEMES = ["pedersen-bls-chained", "pedersen-bls-unchained", "bls-unchained-on-g1", "bls-unchained-g1-rfc9380",
           "bls-bn254-unchained-on-g1"]

_EDGE = re.compile(r'^(-?\d+) -> (-?\d+) \[label="(\w+)(?:\(([^)]*)\))?"')
_NODE = re.compile(r'^(-?\d+) \[label="(.*)"(,style = filled)?\]\s*$')
_ACT = re.compile(r'/\\ act = <<"(\w+)"((?:, -?\d+)*)>>')


def parse_graph(path):
    """-> (inits {node: cur}, out {src: [(dst, name, args)]}, nedges)"""
    inits, out, seen = {}, collections.defaultdict(list), set()
    with open(path) as fh:
        for line in fh:
            m = _EDGE.match(line)
            if m:
                args = tuple(int(a) for a in m.group(4).split(",")) if m.group(4) else ()
                e = (m.group(1), m.group(2), m.group(3), args)
                if e not in seen:
                    seen.add(e)
                    out[e[0]].append(e)
                continue
            m = _NODE.match(line)
            if m and m.group(3):
                c = re.search(r'cur = (\d+)', m.group(2))
                inits[m.group(1)] = int(c.group(1)) if c else 1
    for v in out.values():
        v.sort()
    return inits, out, len(seen)


def tour(inits, out, maxlen, rng):
    """Walks (cur, [edges]) from initial states that together take every edge at least once."""
    uncovered = set(e for v in out.values() for e in v)

    def nearest(src, budget):
        """shortest edge path from src ending with an uncovered edge (<= budget edges)"""
        prev, frontier, seen, depth = {}, [src], {src}, 0
        while frontier and depth < budget:
            nxt = []
            for s in frontier:
                cand = [e for e in out.get(s, []) if e in uncovered]
                if cand:
                    loops = [e for e in cand if e[1] == s]
                    e = (loops or cand)[0] if loops else cand[rng.randrange(len(cand))]
                    p = [e]
                    while s in prev:
                        p.append(prev[s])
                        s = prev[s][0]
                    return list(reversed(p))
                for e in out.get(s, []):
                    if e[1] not in seen:
                        seen.add(e[1])
                        prev[e[1]] = e
                        nxt.append(e[1])
            frontier, depth = nxt, depth + 1
        return None

    walks = []
    order = sorted(inits)
    while uncovered:
        best = None
        for i in order:
            p = nearest(i, 64)
            if p and (best is None or len(p) < len(best[1])):
                best = (i, p)
        if best is None:
            break
        init, steps = best
        steps = list(steps)
        for e in steps:
            uncovered.discard(e)
        cur = steps[-1][1]
        while len(steps) < maxlen:
            p = nearest(cur, maxlen - len(steps))
            if not p:
                break
            steps += p
            for e in p:
                uncovered.discard(e)
            cur = steps[-1][1]
        walks.append((inits[init], steps))
        rng.shuffle(order)
    return walks, uncovered


def cex_script(r, name):
    """TLC's printed counterexample (state sequence with the `act` label) -> script."""
    acts = [(m.group(1), [int(x) for x in m.group(2).split(",")[1:]] if m.group(2) else [])
            for m in _ACT.finditer(r.out)]
    if not acts or acts[0][0] != "Init":
        return None
    return {"name": name, "cur": acts[0][1][0], "steps": [{"a": a, "args": g} for a, g in acts[1:] if a != "Tick"]}


def write_replay(ctx, sig, alarm, script):
    d = os.path.join(core.ROOT, "replays")
    os.makedirs(d, exist_ok=True)
    h = hashlib.sha1(json.dumps(sig, sort_keys=True).encode()).hexdigest()[:10]
    p = os.path.join(d, "%s-%s.json" % (ctx.prop, h))
    with open(p, "w") as fh:
        json.dump({"property": ctx.prop, "seed": ctx.seed, "tier": ctx.tier, "signature": sig, "alarm": alarm,
                   "stage": "httprelay", "script": script}, fh, indent=1)
    return p


def run(ctx, monitors=MON_C01_HTTP):
    q = ctx.quick
    W = int(os.environ.get("VERIF_TLC_WORKERS", "0")) or None
    rng = random.Random(ctx.seed * 7919 + 17)
    scripts = []

    rp = getattr(ctx, "replay", None)
    rp_script = None
    if rp:
        j = json.load(open(rp))
        if j.get("stage") == "httprelay" and j.get("script"):
            rp_script = j["script"]
        elif j.get("stage") == "httprelay":
            raise core.Inconclusive("replay file %s holds no script" % rp)
        else:
            ctx.notes.append("HttpRelay: replay file %s belongs to another stage; stage skipped" % rp)
            return True

    if rp_script:
        scripts = [rp_script]
        ctx.notes.append("HttpRelay: replaying only the script of %s" % rp)
    else:
        # ---- 1. design level
        ctx.model_check("HttpRelay", "MC_HttpRelay.cfg", workers=W, timeout=300, coverage=not q)
        if not q:
            ctx.model_check("HttpRelay", "MC_HttpRelay_big.cfg", workers=W, timeout=1200)
        for cfg, shape in (("MC_HttpRelay_f12a.cfg", "empty 200 body after a skipped round"),
                           ("MC_HttpRelay_f12b.cfg", "a later round answered after a stream reset")):
            # a violation here is a MODEL counterexample (inconclusive by itself): it is replayed on the real
            # handler below, where only the trace monitors can turn it into a verdict
            r = ctx.model_check("HttpRelay", cfg, workers=W, timeout=300)
            if r.violated:
                s = cex_script(r, "tlc-cex-" + cfg[13:-4])
                if s:
                    scripts.append(s)
                    ctx.notes.append("%s: TLC reports %s violated on the design (%s) after %d steps; replayed on the real handler"
                                     % (cfg, r.violated, shape, len(s["steps"])))
                else:
                    ctx.inconclusive.append("could not read TLC's counterexample of %s" % cfg)
            elif r.finished:
                ctx.notes.append("%s: no counterexample (%s cannot happen on the design)" % (cfg, shape))
        # ---- 2. transition tour of the complete labelled graph
        r = ctx.model_check("HttpRelay", "MC_HttpRelay_tour.cfg" if q else "MC_HttpRelay_tour4.cfg", workers=1, timeout=300,
                            extra=["-dump", "dot,actionlabels", "graph.dot"])
        if not r.finished:
            raise core.Inconclusive("HttpRelay tour graph did not finish")
        inits, out, nedges = parse_graph(os.path.join(r.workdir, "graph.dot"))
        if not inits or not nedges:
            raise core.Inconclusive("could not read the state graph dumped by TLC")
        walks, left = tour(inits, out, WALK_LEN, rng)
        if left:
            ctx.inconclusive.append("HttpRelay transition tour left %d edges uncovered" % len(left))
        total = len(walks)
        if q:
            rng.shuffle(walks)
            walks = walks[:int(os.environ.get("VERIF_HTTP_WALKS", "260"))]
        covered = set()
        for k, (cur, steps) in enumerate(walks):
            covered.update(steps)
            scripts.append({"name": "tour-%d" % k, "cur": cur,
                            "steps": [{"a": e[2], "args": list(e[3])} for e in steps]})
        ctx.notes.append("HttpRelay state graph (tour instance): %d initial states, %d labelled edges; tour = %d walks "
                         "(<= %d steps); replayed %d walks covering %d edges"
                         % (len(inits), nedges, total, WALK_LEN, len(walks), len(covered)))
        ctx.extra["http_edges_total"] = nedges
        ctx.extra["http_edges_replayed"] = len(covered)
        # ---- the two behaviours TLC found as counterexamples before the repair of F12 a/b (always replayed)
        pre = [("ReqStart", [1, 1]), ("NodeAdvance", []), ("WatchItem", [1]), ("ReqStart", [1, 2]), ("ReqCheck2", [1])]
        for name, rest in (("f12a-regression", [("NodeAdvance", []), ("NodeAdvance", []), ("WatchItem", [3])]),
                           ("f12b-regression", [("StreamFail", []), ("Reconnect", []), ("NodeAdvance", []),
                                                ("NodeAdvance", []), ("WatchItem", [3])])):
            for cur in (1, 3):
                scripts.append({"name": "%s-cur%d" % (name, cur), "cur": cur,
                                "steps": [{"a": a, "args": g} for a, g in pre + rest]})
        # ---- idle-timer reconnects (real 2 s timer; every round long due, 1 s period)
        idle = [("ReqStart", [1, 2]), ("NodeAdvance", []), ("NodeAdvance", []), ("NodeAdvance", []), ("NodeAdvance", []),
                ("WatchItem", [2]), ("ReqStart", [1, 3]), ("ReqCheck2", [1]), ("IdleReconn", []),
                ("WatchItem", [3]), ("ReqStart", [1, 4]), ("ReqCheck2", [1]), ("IdleReconn", []), ("ReqLatest", [2]),
                ("WatchItem", [4])]
        scripts.append({"name": "idle-reconnect", "cur": 1000, "mode": "alldue",
                        "steps": [{"a": a, "args": g} for a, g in idle]})

    for i, sc in enumerate(scripts):
        sc.setdefault("scheme", SCHEMES[i % len(SCHEMES)])   # the handler is scheme-agnostic; the oracle is not
    inp = os.path.join(ctx.work, "httprelay-scripts.ndjson")
    write_scripts(inp, scripts)
    env = {"VERIF_IN": inp}
    if rp_script:
        env["VERIF_NOBUILTIN"] = "1"
    trace = run_harness(ctx, PKG, "TestVerifHttpRelay", "httprelay.ndjson", env=env, timeout=600 if q else 1500)
    ok, alarms, res = ctx.validate_trace("Trace_HttpRelay", "Trace_HttpRelay.cfg", trace, timeout=900)
    if ok:
        ctx.traces += count_lines(trace, "Reset")
    nresp = sum(count_lines(trace, ev) for ev in ("ReqStart", "ReqCheck2", "WatchItem", "Timeout", "ReqLatest", "Misc"))
    ctx.extra["http_steps_checked"] = nresp
    ctx.sample({"stage": "httprelay", "trace_head": sample_lines(trace, 3, 300)})
    by_name = {sc["name"]: sc for sc in scripts}
    seen = set()
    for a in sorted(alarms, key=lambda a: a["line"]):
        if a["mon"] in monitors:
            sig = {"stage": "httprelay", "mon": a["mon"], "part": a["part"], "shape": a["shape"]}
            key = json.dumps(sig, sort_keys=True)
            first = key not in seen
            seen.add(key)
            ctx.alarm(sig, "HTTP API: %s - a 200 answer to a request for round %s: %s (shape %s; event %s at trace line %s, scenario %s)"
                      % (a["mon"], a["round"], a["part"], a["shape"], a["ev"], a["line"], a["scenario"]),
                      replay=write_replay(ctx, sig, a, by_name.get(a["scenario"])) if first and a["shape"] == "other" else None)
        elif a["mon"] not in DRIFT:
            ctx.notes.append("HTTP API: alarm %s (%s) outside the requested monitors at trace line %s" % (a["mon"], a["part"], a["line"]))
    drift = [a for a in alarms if a["mon"] in DRIFT]
    if drift:
        ctx.inconclusive.append("HTTP API: %d differences between server.go and HttpRelay.tla (model drift / harness), first: %s"
                                % (len(drift), drift[0]))
    return ok


# ------------------------------------------------------------------------------------------------ C14
# The hand-over between the watch loop and the parked requests at its real grain (SpecFine of HttpRelay.tla).

_FINE_STEP = {"FRecv": "WatchLock", "FRelease": "WatchRelease", "Cancel": "Cancel", "FFailRecv": "StreamFail",
              "ReqStart": "ReqStart", "ReqCheck2": "ReqCheck2", "ReqLatest": "ReqLatest", "Reconnect": "Reconnect",
              "NodeAdvance": "NodeAdvance"}


def project(acts):
    """fine-grain behaviour -> the steps the harness can schedule (what the goroutines do by themselves -
    FLock, FSend, FUnlock, FDone, FUnreg, FTake - happens eagerly in the real code)"""
    out = []
    for a, g in acts:
        if a.startswith("E") and a[1:] in _FINE_STEP:      # graph labels of the environment steps (EFRecv, ECancel, ..)
            a = a[1:]
        if a in _FINE_STEP:
            out.append({"a": _FINE_STEP[a], "args": list(g)})
    return out


def _cancel_in_section(steps):
    held = False
    for st in steps:
        if st["a"] == "WatchLock":
            held = True
        elif st["a"] == "WatchRelease":
            held = False
        elif st["a"] == "Cancel" and held:
            return True
    return False


def run_c14(ctx, monitors=MON_C14_HTTP):
    """C14 for the HTTP relay: whatever a client does with a parked request (in particular: go away while the
    watch loop hands the new round over), the loop does not block holding pendingLk, every handler returns and
    the relay still answers."""
    q = ctx.quick
    W = int(os.environ.get("VERIF_TLC_WORKERS", "0")) or None
    rng = random.Random(ctx.seed * 104729 + 3)
    scripts = []
    rp = getattr(ctx, "replay", None)
    if rp:
        j = json.load(open(rp))
        if j.get("stage") != "httphandover":
            ctx.notes.append("HttpRelay hand-over: replay file %s belongs to another stage; stage skipped" % rp)
            return True
        scripts = [j["script"]]
    else:
        # 1. design: every interleaving of (cancel, select, unregister) with (lock, send.., unlock), channel capacity 1
        ctx.model_check("HttpRelay", "MC_HttpRelay_handover.cfg", workers=W, timeout=600)
        # 2. sanity of the monitor + the critical schedule: with an unbuffered channel TLC must find the wedge
        r = ctx.model_check("HttpRelay", "MC_HttpRelay_handover_cap0.cfg", expect_ok=False, workers=1, timeout=300)
        acts = [(m.group(1), [int(x) for x in m.group(2).split(",")[1:]] if m.group(2) else []) for m in _ACT.finditer(r.out)]
        if r.violated == "Inv_RelayNotWedged" and acts and acts[0][0] == "Init":
            scripts.append({"name": "tlc-cap0-cex", "cur": acts[0][1][0], "mode": "fine", "steps": project(acts[1:])})
            ctx.notes.append("MC_HttpRelay_handover_cap0: with an unbuffered waiter channel TLC finds the wedge after %d steps "
                             "(cancel between http.watch.locked and the send); that schedule is replayed on the real handler"
                             % (len(acts) - 1))
        else:
            ctx.inconclusive.append("MC_HttpRelay_handover_cap0 did not produce the expected counterexample (%s)"
                                    % (r.violated or r.error or "none"))
        # 3. schedules: transition tour of the eager fine-grain graph
        r = ctx.model_check("HttpRelay", "MC_HttpRelay_handover_tour.cfg", workers=1, timeout=300,
                            extra=["-dump", "dot,actionlabels", "graph.dot"])
        if not r.finished:
            raise core.Inconclusive("HttpRelay hand-over graph did not finish")
        inits, out, nedges = parse_graph(os.path.join(r.workdir, "graph.dot"))
        if not inits or not nedges:
            raise core.Inconclusive("could not read the hand-over state graph dumped by TLC")
        walks, left = tour(inits, out, 40, rng)
        if left:
            ctx.inconclusive.append("hand-over transition tour left %d edges uncovered" % len(left))
        cand = []
        for cur, steps in walks:
            st = project([(e[2], e[3]) for e in steps])
            if any(x["a"] in ("WatchLock", "Cancel") for x in st):
                cand.append({"cur": cur, "mode": "fine", "steps": st})
        crit = [c for c in cand if _cancel_in_section(c["steps"])]
        rest = [c for c in cand if not _cancel_in_section(c["steps"])]
        total = len(cand)
        if q:
            rng.shuffle(crit)
            rng.shuffle(rest)
            cand = crit[:6] + rest[:4]
        for k, c in enumerate(cand):
            c["name"] = "handover-%d" % k
            scripts.append(c)
        ctx.notes.append("hand-over graph (eager): %d states, %d edges; %d walks touch the hand-over, %d of them cancel a "
                         "request while the loop holds the lock; replayed %d" % (r.distinct, nedges, total, len(crit), len(cand)))
    for i, sc in enumerate(scripts):
        sc.setdefault("scheme", SCHEMES[i % len(SCHEMES)])
    inp = os.path.join(ctx.work, "httphandover-scripts.ndjson")
    write_scripts(inp, scripts)
    trace = run_harness(ctx, PKG, "TestVerifHttpRelay", "httphandover.ndjson",
                        env={"VERIF_IN": inp, "VERIF_NOBUILTIN": "1"}, timeout=600 if q else 1500)
    ok, alarms, res = ctx.validate_trace("Trace_HttpRelay", "Trace_HttpRelay.cfg", trace, name="trace-handover", timeout=900)
    if ok:
        ctx.traces += count_lines(trace, "Reset")
    ctx.extra["http_handover_releases"] = count_lines(trace, "WatchRelease")
    ctx.extra["http_handover_probes"] = count_lines(trace, "Probe")
    ctx.sample({"stage": "httphandover", "trace_head": sample_lines(trace, 3, 300)})
    events = [json.loads(l) for l in open(trace)]
    by_name = {sc["name"]: sc for sc in scripts}
    seen = set()
    for a in sorted(alarms, key=lambda a: a["line"]):
        if a["mon"] in monitors:
            sig = {"stage": "httphandover", "mon": a["mon"], "part": a["part"], "at": a["shape"]}
            key = json.dumps(sig, sort_keys=True)
            first = key not in seen
            seen.add(key)
            diag = events[a["line"] - 1].get("diag", "") if 0 < a["line"] <= len(events) else ""
            replay = None
            if first:
                d = os.path.join(core.ROOT, "replays")
                os.makedirs(d, exist_ok=True)
                replay = os.path.join(d, "%s-%s.json" % (ctx.prop, hashlib.sha1(key.encode()).hexdigest()[:10]))
                with open(replay, "w") as fh:
                    json.dump({"property": ctx.prop, "seed": ctx.seed, "tier": ctx.tier, "signature": sig, "alarm": a,
                               "diagnosis": diag, "stage": "httphandover", "script": by_name.get(a["scenario"])}, fh, indent=1)
            ctx.alarm(sig, "HTTP relay: RelayNotWedged - %s (%s; trace line %s, scenario %s)%s"
                      % (a["part"], a["shape"], a["line"], a["scenario"], ("; blocked: " + diag) if diag else ""), replay=replay)
        elif a["mon"] not in DRIFT:
            ctx.notes.append("HTTP relay hand-over: alarm %s (%s) outside the requested monitors at trace line %s"
                             % (a["mon"], a["part"], a["line"]))
    drift = [a for a in alarms if a["mon"] in DRIFT]
    if drift:
        ctx.inconclusive.append("HTTP relay hand-over: %d differences between server.go and HttpRelay.tla (model drift / harness), first: %s"
                                % (len(drift), drift[0]))
    return ok
