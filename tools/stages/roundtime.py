"""Stage: common/time.go <-> spec/RoundTime.tla (C16)."""
import json, os, re, shutil, glob
import core
from stages.common import *

MON_C16 = {"Mon_CurrentUnique", "Mon_CurrentSchedule", "Mon_Next", "Mon_Monotone", "Mon_NoWrap"}

# classes whose predicate multiplies period and argument: the period is fixed to a literal chosen from
# the seed (inputs only), which keeps every SMT query linear
NONLINEAR = {"R_AboveBufferBelowGuard", "R_AtElapsedMax", "R_ProductWraps", "R_ProductWrapsSmall", "R_ProductNegative", "R_JustAboveBuffer"}
NL_PERIODS = [3, 25, 30, 1000, 3600, 65537, 1000003, 16777259, 2147483659, 4294967291, 4294967295, 7, 86400, 4, 1023, 4294901760]

QUICK_CORE = ["R_BelowGuard", "R_AtGuard", "R_DoubleGuard", "R_DoubleGuardM2", "R_HalfGuard", "R_Pow2m1BelowGuard", "R_Pow2m1AtGuard", "R_MaxPeriodBelowGuard", "R_Max",
              "R_JustAboveBuffer", "R_AboveBufferBelowGuard", "R_ProductWraps", "T_OnBoundaryFar", "T_BeforeBoundaryFar", "T_MaxAll",
              "T_BigPeriodBefore", "T_Pow2m1Before", "T_MaxElapsed"]

# boundary classes of Apa_RoundTime.tla: name -> (call kind, period free?, genesis free?)
CLASSES = {
    "R_BelowGuard": ("TOR", 1, 1), "R_TwoBelowGuard": ("TOR", 1, 1), "R_AtGuard": ("TOR", 1, 1),
    "R_AboveGuard": ("TOR", 1, 1), "R_DoubleGuard": ("TOR", 1, 1), "R_DoubleGuardM2": ("TOR", 1, 1), "R_HalfGuard": ("TOR", 1, 1), "R_Pow2m1BelowGuard": ("TOR", 0, 1), "R_Pow2m1AtGuard": ("TOR", 0, 1),
    "R_Pow2BelowGuard": ("TOR", 0, 1), "R_Pow2AtGuard": ("TOR", 0, 1), "R_MaxPeriodBelowGuard": ("TOR", 0, 1),
    "R_MaxPeriodMaxGenesis": ("TOR", 0, 0), "R_Pow2m2MaxGenesis": ("TOR", 0, 0), "R_Max": ("TOR", 1, 1),
    "R_HalfMax": ("TOR", 1, 1), "R_HalfMaxP1": ("TOR", 1, 1), "R_Zero": ("TOR", 1, 1), "R_One": ("TOR", 1, 1),
    "R_Two": ("TOR", 1, 1), "R_AtElapsedMax": ("TOR", 1, 1), "R_BetweenGuardAndLimit": ("TOR", 1, 1),
    "R_ProductWraps": ("TOR", 1, 1), "R_ProductWrapsSmall": ("TOR", 1, 1), "R_ProductNegative": ("TOR", 1, 1),
    "R_JustAboveBuffer": ("TOR", 1, 1), "R_AboveBufferBelowGuard": ("TOR", 1, 1),
    "T_Genesis": ("CUR", 1, 1), "T_GenesisP1": ("CUR", 1, 1), "T_OnBoundaryFar": ("CUR", 1, 1),
    "T_BeforeBoundaryFar": ("CUR", 1, 1), "T_AfterBoundaryFar": ("CUR", 1, 1), "T_MaxElapsed": ("CUR", 1, 1),
    "T_MaxElapsedM1": ("CUR", 1, 1), "T_MaxAll": ("CUR", 0, 0), "T_BigPeriodBoundary": ("CUR", 1, 1),
    "T_BigPeriodBefore": ("CUR", 1, 1), "T_Pow2m1Boundary": ("CUR", 0, 1), "T_Pow2m1Before": ("CUR", 0, 1),
    "T_PeriodOneFar": ("CUR", 0, 1), "T_FirstPeriod": ("CUR", 1, 1), "T_SecondPeriod": ("CUR", 1, 1),
    "T_Beyond32": ("CUR", 1, 1),
}


def run_apalache(ctx, d, module, module_text, init, nxt, inv, timeout=900):
    """One `apalache-mc check --length=0` call on a generated module (in scratch dir d) that EXTENDS
    one of the Apa_RoundTime* modules.  Returns (outcome, state0, output), outcome in
    {"noerror", "violation", "fail"}; state0 = first state of the ITF counterexample."""
    for f in glob.glob(os.path.join(core.SPEC, "*RoundTime*.tla")):
        shutil.copy(f, d)
    if module_text is not None:
        with open(os.path.join(d, module + ".tla"), "w") as fh:
            fh.write(module_text)
    cmd = ["apalache-mc", "check", "--length=0", "--init=" + init, "--next=" + nxt, "--inv=" + inv,
           "--out-dir=" + os.path.join(d, "out"), module + ".tla"]
    rc, out, wall = core.sh(cmd, cwd=d, timeout=timeout)
    rec = {"tool": "apalache-mc", "module": module, "cfg": "%s/%s" % (init, inv), "dir": os.path.basename(d),
           "wall_s": round(wall, 1), "rc": rc}
    ctx.tlc_runs.append(rec)
    if "The outcome is: NoError" in out:
        rec["outcome"] = "noerror"
        return "noerror", None, out
    itf = sorted(glob.glob(os.path.join(d, "out", "*", "*", "violation1.itf.json")))
    if rc == 12 and itf:
        rec["outcome"] = "violation"
        return "violation", json.load(open(itf[-1]))["states"][0], out
    rec["outcome"] = "fail"
    return "fail", None, out


def itf_val(v):
    """ITF JSON value -> python (ints for #bigint, lists for #tup/#set, ...)."""
    if isinstance(v, dict):
        if "#bigint" in v:
            return int(v["#bigint"])
        if "#tup" in v:
            return [itf_val(x) for x in v["#tup"]]
        if "#set" in v:
            return [itf_val(x) for x in v["#set"]]
        if "#map" in v:
            return [[itf_val(a), itf_val(b)] for a, b in v["#map"]]
        return {k: itf_val(x) for k, x in v.items()}
    if isinstance(v, list):
        return [itf_val(x) for x in v]
    return v


def witness_module(classes, seed):
    """Query module: one (p, g, arg) per class, all in one Init (one SMT call)."""
    ex, conj, tup = [], [], []
    for i, c in enumerate(classes):
        kind, pfree, gfree = CLASSES[c]
        ex += ["p%d \\in 1..MaxPeriod" % i, "g%d \\in 0..MaxGenesis" % i,
               "a%d \\in 0..%s" % (i, "(MaxU - 1)" if kind == "TOR" else "(MaxGenesis + MaxElapsed)")]
        conj.append("%s(p%d, g%d, a%d)" % (c, i, i, i))
        if c in NONLINEAR:
            ps = [4294967294, 2147483646, 1073741822, 4294967291] if c == "R_AboveBufferBelowGuard" else NL_PERIODS
            conj.append("p%d = %d" % (i, ps[((seed or 0) * 5 + i) % len(ps)]))
        elif pfree and seed is not None:   # seed-dependent diversification of the free coordinates
            conj.append("p%d %% 11 = %d" % (i, (seed * 7 + i * 3) % 11))
        if gfree and seed is not None:
            conj.append("g%d %% 13 = %d" % (i, (seed * 5 + i) % 13))
        if kind == "CUR":
            conj.append("a%d >= g%d" % (i, i))
        tup.append('<<"%s", "%s", p%d, g%d, a%d>>' % (c, kind, i, i, i))
    return """---- MODULE ApaQ_RoundTime ----
EXTENDS Apa_RoundTime
VARIABLE
  \\* @type: Seq(<<Str, Str, Int, Int, Int>>);
  wit
QInit == \\E %s :
  /\\ %s
  /\\ wit = << %s >>
  /\\ p = 1 /\\ g = 0 /\\ kind = "witness" /\\ arg = 0 /\\ res = <<>>
QNext == UNCHANGED <<p, g, kind, arg, res, wit>>
NoWitness == Len(wit) = 0
====
""" % (", ".join(ex), "\n  /\\ ".join(conj), ",\n     ".join(tup))


def tla_int_seq(xs):
    return "<<" + ", ".join(str(int(x)) for x in xs) + ">>"


def judge_module(obs):
    """obs: list of (kind, p, g, arg, [results]).  Every observed call becomes a literal application
    of JudgeTOR / JudgeCUR of RoundTime.tla (conformance with the transcription + the monitors);
    literal arithmetic folds during Apalache's preprocessing, so a batch is cheap.  The last entry is
    a canary (a deliberately wrong tuple): every judgement run ends in a 'violation' whose state
    carries all verdicts, and a run in which the canary is not flagged is discarded as vacuous."""
    rows = []
    for (k, p, g, a, o) in list(obs) + [("TOR", 1, 0, 5, [3, 5])]:
        rows.append("Judge%s(%d, %d, %d, %s)" % (k, p, g, a, ", ".join(str(int(x)) for x in o)))
    return """---- MODULE ApaJ_RoundTime ----
EXTENDS Apa_RoundTimeJudge
JInit == /\\ verdicts = <<
            %s >>
         /\\ p = 1 /\\ g = 0 /\\ kind = "judge" /\\ arg = 0 /\\ res = <<>>
====
""" % ",\n            ".join(rows)


def _par(jobs, n=2):
    """run thunks with modest parallelism, keep order"""
    import concurrent.futures as cf
    with cf.ThreadPoolExecutor(max_workers=n) as ex:
        return [f.result() for f in [ex.submit(j) for j in jobs]]


def run(ctx, monitors):
    q = ctx.quick
    W = int(os.environ.get("VERIF_TLC_WORKERS", "0")) or None
    # ---- 2. vectors: TLC (grid + mid-range) ...
    cfg = os.path.join(ctx.work, "Sim_RoundTime.cfg")
    with open(cfg, "w") as fh:
        fh.write(open(os.path.join(core.SPEC, "Sim_RoundTime.cfg")).read().replace("Seed = 1", "Seed = %d" % (ctx.seed % 1000)))
    sim = ctx.model_check("Sim_RoundTime", "Sim_RoundTime.cfg", workers=1, timeout=300, files={cfg: "Sim_RoundTime.cfg"})
    vecs = []
    vf = os.path.join(sim.workdir, "roundtime_vectors.json")
    if not (sim.ok() and os.path.exists(vf)):
        raise core.Inconclusive("Sim_RoundTime did not produce vectors:\n" + sim.out[-1500:])
    d = json.load(open(vf))
    for key, kind, cls in (("gridtor", "TOR", "grid"), ("gridcur", "CUR", "grid"), ("midtor", "TOR", "mid"), ("midcur", "CUR", "mid")):
        for (p, g, a) in d[key]:
            vecs.append({"kind": kind, "cls": cls, "p": str(p), "g": str(g), "a": str(a)})
    ntlc = len(vecs)

    # ---- ... and Apalache: lemmas + 64-bit boundary witnesses (one SMT call per group of classes)
    if q:
        # quick: the classes that sit on the guard / the boundaries always, 4 more chosen by the seed
        rest = sorted(c for c in CLASSES if c not in QUICK_CORE)
        extra = [rest[(ctx.seed * 7 + 11 * i) % len(rest)] for i in range(4)]
        chosen = QUICK_CORE + sorted(set(extra))
        seeds = [ctx.seed]
    else:
        chosen = sorted(CLASSES)
        seeds = [ctx.seed, ctx.seed + 101, ctx.seed + 202]
    # small queries (<= 7 classes per SMT call): z3's running time on big conjunctions of table lookups is erratic
    groups = [chosen[i:i + 7] for i in range(0, len(chosen), 7)]
    jobs = []
    dl = ctx.sub("apalache-lemmas")
    jobs.append(lambda: ("lemma", None, run_apalache(ctx, dl, "Apa_RoundTime", None, "LemmaInit", "LemmaNext", "Lemmas")))
    for sd in seeds:
        for gi, grp in enumerate(groups):
            dd = ctx.sub("apalache-witness-%d-%d" % (sd, gi))
            jobs.append((lambda dd=dd, grp=grp, sd=sd: ("wit", (dd, grp), run_apalache(
                ctx, dd, "ApaQ_RoundTime", witness_module(grp, sd), "QInit", "QNext", "NoWitness", timeout=400))))
    import concurrent.futures as cf
    pool = cf.ThreadPoolExecutor(max_workers=3)
    futs = [pool.submit(j) for j in jobs]      # Apalache runs while TLC explores the design configurations
    # ---- 1. design level: exhaustive TLC on the grid and on scaled-down machines
    if os.environ.get("VERIF_DEV_SKIP_MC"):      # development only (mutation loops): the design runs do not depend on /repo
        ctx.notes.append("design-level TLC runs skipped (VERIF_DEV_SKIP_MC)")
        ctx.exhaustive = False
    else:
        ctx.model_check("MC_RoundTime", "MC_RoundTime_grid.cfg", workers=W, timeout=300)
        ctx.model_check("MC_RoundTime", "MC_RoundTime_word8.cfg", workers=W, timeout=300)
        ctx.model_check("MC_RoundTime", "MC_RoundTime_word10.cfg", workers=W, timeout=900)
        if not q:
            ctx.model_check("MC_RoundTime", "MC_RoundTime_word12.cfg", workers=W, timeout=2400)

    results = [f.result() for f in futs]
    pool.shutdown()
    nwit = 0
    classes_seen = set()
    for what, info, (outcome, st, out) in results:
        if what == "lemma":
            if outcome != "noerror":
                ctx.inconclusive.append("Apalache could not establish Lemma_SmallIsExact/Lemma_Tables (%s):\n%s" % (outcome, out[-1500:]))
            else:
                ctx.notes.append("Apalache: Lemma_SmallIsExact and Lemma_Tables hold (64-bit constants, all uint64 arguments)")
            continue
        dd, grp = info
        if outcome != "violation":
            # e.g. a class has no member with this seed's residues: retry once without diversification
            ctx.notes.append("witness query %s: %s with seed residues, retried without" % (os.path.basename(dd), outcome))
            d2 = ctx.sub("apalache-witness-retry")
            outcome, st, out = run_apalache(ctx, d2, "ApaQ_RoundTime", witness_module(grp, None), "QInit", "QNext", "NoWitness", timeout=400)
        if outcome != "violation":
            ctx.inconclusive.append("Apalache produced no boundary witnesses for %s (%s):\n%s" % (grp, outcome, out[-1500:]))
            continue
        for (cls, kind, p, g, a) in itf_val(st["wit"]):
            vecs.append({"kind": kind, "cls": "apa:" + cls, "p": str(p), "g": str(g), "a": str(a)})
            classes_seen.add(cls)
            nwit += 1
    ctx.notes.append("vectors from the specification: %d by TLC (grid %d+%d, mid-range %d+%d), %d Apalache boundary witnesses in %d classes"
                     % (ntlc, len(d["gridtor"]), len(d["gridcur"]), len(d["midtor"]), len(d["midcur"]), nwit, len(classes_seen)))
    inp = os.path.join(ctx.work, "roundtime-vectors.ndjson")
    write_scripts(inp, vecs)

    # ---- 3. real code
    nrand = 40 if q else 900
    trace = run_harness(ctx, "./common", "TestVerifRoundTime", "roundtime.ndjson",
                        env={"VERIF_IN": inp, "VERIF_RANDOM": str(nrand)})
    big = trace + ".big"

    # ---- 4a. TLC judges the calls below 2^31
    ok, alarms, res = ctx.validate_trace("Trace_RoundTime", "Trace_RoundTime.cfg", trace, timeout=900)
    nsmall = count_lines(trace)
    if ok:
        ctx.traces += nsmall
    ctx.sample({"stage": "roundtime", "tlc_trace_head": sample_lines(trace, 2), "apalache_trace_head": sample_lines(big, 2)})
    for a in alarms:
        _report(ctx, monitors, a["mon"], a["call"], a["cls"], "TLC", a["detail"])

    # ---- 4b. Apalache judges the 64-bit calls
    obs = []
    for line in open(big):
        e = json.loads(line)
        obs.append((e["ev"], int(e["p"]), int(e["g"]), int(e["a"]), [int(x) for x in e["o"]], e["cls"]))
    B = 400
    batches = [obs[i:i + B] for i in range(0, len(obs), B)]
    jobs = []
    for bi, b in enumerate(batches):
        dd = ctx.sub("apalache-judge-%d" % bi)
        jobs.append((lambda dd=dd, b=b: run_apalache(ctx, dd, "ApaJ_RoundTime", judge_module([x[:5] for x in b]),
                                                      "JInit", "JNext", "NoAlarm", timeout=900)))
    nbig = 0
    for b, (outcome, st, out) in zip(batches, _par(jobs, 2)):
        v = itf_val(st["verdicts"]) if st else None
        if outcome != "violation" or v is None or len(v) != len(b) + 1 or "Conformance" not in v[-1] or "Mon_NoWrap" not in v[-1]:
            ctx.inconclusive.append("Apalache judgement of %d observed 64-bit calls failed or was vacuous (%s):\n%s" % (len(b), outcome, out[-1500:]))
            continue
        nbig += len(b)
        for (k, p, g, a, o, cls), verdict in zip(b, v[:-1]):
            for m in verdict:
                _report(ctx, monitors, m, k, cls, "Apalache", [p, g, a, o])
    ctx.traces += nbig
    ctx.notes.append("calls observed on the real code and judged by the specification: %d by TLC (values < 2^31), %d by Apalache (64-bit)" % (nsmall if ok else 0, nbig))
    ctx.extra["classes_witnessed"] = sorted(classes_seen)
    drift = ctx.__dict__.get("_rt_drift", [])
    if drift:
        ctx.inconclusive.append("roundtime: %d calls differ from the transcription in RoundTime.tla without breaking a monitor (model drift), first: %s" % (len(drift), drift[0]))
    return ok


def _report(ctx, monitors, mon, call, cls, tool, detail):
    cls = re.sub(r"^(apa|nb):", "", cls)
    if mon in monitors:
        ctx.alarm({"stage": "roundtime", "mon": mon, "call": call},
                  "common/time.go: %s failed for %s (class %s, judged by %s): period, genesis, argument, results = %s"
                  % (mon, {"TOR": "TimeOfRound(r), TimeOfRound(r+1)", "CUR": "CurrentRound/NextRound/TimeOfRound at instant t"}.get(call, call),
                     cls, tool, json.dumps(detail)))
    else:
        ctx.__dict__.setdefault("_rt_drift", []).append("%s %s %s" % (mon, call, json.dumps(detail)))
