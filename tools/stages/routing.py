"""Stage: multi-beacon routing of a DrandDaemon <-> spec/DaemonRouting.tla (C19).

1. TLC explores the routing design exhaustively (all load / dkg-done / stop histories up to MaxSteps over
   default + 2 chains, in every state the whole (endpoint x id x hash) request product through the invariants).
2. The complete labelled state graph (-dump dot,actionlabels under the VIEW) is turned into a transition
   tour: walks from initial states that together take every edge.
3. The Go harness replays the walks on a real DrandDaemon (fresh daemon per walk) and fires the request
   product in every visited state, recording an ndjson trace.
4. TLC validates the trace with Trace_DaemonRouting: the monitors RoutedRight / KeepsWorking decide.
"""
import hashlib, json, os, random, re
import core
from stages.common import *

MONITORS = {"RoutedRight", "KeepsWorking"}
DRIFT = {"Conformance", "ConstDrift", "Harness"}

_RE_NODE = re.compile(r'^(-?\d+) \[label="(.*)",(style = filled)\]\s*$')
_RE_EDGE = re.compile(r'^(-?\d+) -> (-?\d+) \[label="(\w+)\(\\"(\w+)\\"\)"')
_RE_DISK = re.compile(r'disk \|-> \{(.*?)\}')


def parse_graph(path):
    """-> (inits: {node: [disk ids]}, edges: [(src, dst, kind, id)])"""
    inits, edges, seen = {}, [], set()
    with open(path) as fh:
        for line in fh:
            m = _RE_EDGE.match(line)
            if m:
                e = (m.group(1), m.group(2), m.group(3), m.group(4))
                if e not in seen:
                    seen.add(e)
                    edges.append(e)
                continue
            m = _RE_NODE.match(line)
            if m and m.group(3):
                d = _RE_DISK.search(m.group(2))
                ids = re.findall(r'\\"(\w+)\\"', d.group(1)) if d else []
                inits[m.group(1)] = ids
    return inits, edges


def tour(inits, edges, maxlen, rng):
    """Walks (init, [edges]) of at most maxlen steps from initial states that cover every edge."""
    out = {}
    for e in edges:
        out.setdefault(e[0], []).append(e)
    for v in out.values():
        v.sort()
    uncovered = set(edges)

    def path_to_uncovered(src, budget):
        # BFS over states; returns list of edges leading to (and including) an uncovered edge
        prev, frontier, seen = {}, [src], {src}
        depth = 0
        while frontier and depth <= budget:
            nxt = []
            for s in frontier:
                cand = [e for e in out.get(s, []) if e in uncovered]
                if cand and depth < budget:
                    e = cand[rng.randrange(len(cand))]
                    p = [e]
                    while s in prev:
                        p.append(prev[s])
                        s = prev[s][0]
                    return list(reversed(p))
                for e in out.get(s, []):
                    if e[1] not in seen:
                        seen.add(e[1])
                        prev[e[1]] = e
                        nxt.append(e[1])
            frontier = nxt
            depth += 1
        return None

    walks = []
    init_ids = sorted(inits)
    while uncovered:
        best = None
        order = init_ids[:]
        rng.shuffle(order)
        for i in order:
            p = path_to_uncovered(i, maxlen)
            if p and (best is None or len(p) < len(best[1])):
                best = (i, p)
        if best is None:
            break   # edges unreachable within maxlen (cannot happen for maxlen >= graph depth + 1)
        init, steps = best
        for e in steps:
            uncovered.discard(e)
        cur = steps[-1][1]
        while len(steps) < maxlen:
            p = path_to_uncovered(cur, maxlen - len(steps))
            if not p:
                break
            steps += p
            for e in p:
                uncovered.discard(e)
            cur = steps[-1][1]
        walks.append((init, steps))
    return walks, uncovered


def write_replay(ctx, sig, alarm, script):
    """A replay file holds the walk that led to the alarm; `check.py C19 --replay <file>` re-runs only it."""
    d = os.path.join(core.ROOT, "replays")
    os.makedirs(d, exist_ok=True)
    h = hashlib.sha1(json.dumps(sig, sort_keys=True).encode()).hexdigest()[:10]
    p = os.path.join(d, "%s-%s.json" % (ctx.prop, h))
    with open(p, "w") as fh:
        json.dump({"property": ctx.prop, "seed": ctx.seed, "tier": ctx.tier, "signature": sig, "alarm": alarm,
                   "script": script}, fh, indent=1)
    return p


def run(ctx, monitors=MONITORS):
    q = ctx.quick
    # 1. design level, exhaustive
    r = ctx.model_check("DaemonRouting", "MC_DaemonRouting.cfg", extra=["-dump", "dot,actionlabels", "graph.dot"],
                        workers=4, timeout=300)
    if not q:
        ctx.model_check("DaemonRouting", "MC_DaemonRouting_big.cfg", workers=4, timeout=900)
    if not r.finished and not r.violated:
        # (a JVM that was starved or killed on a busy machine: once more before giving up)
        ctx.inconclusive[:] = [m for m in ctx.inconclusive if "MC_DaemonRouting.cfg" not in m]
        r = ctx.model_check("DaemonRouting", "MC_DaemonRouting.cfg", name="MC_DaemonRouting-retry",
                            extra=["-dump", "dot,actionlabels", "graph.dot"], workers=4, timeout=600)
    if not r.finished:
        raise core.Inconclusive("DaemonRouting model checking did not finish (%s)\n%s" % (r.violated or r.error, r.out[-1500:]))
    # 2. transition tour of the complete graph
    inits, edges = parse_graph(os.path.join(r.workdir, "graph.dot"))
    if not inits or not edges:
        raise core.Inconclusive("could not read the state graph dumped by TLC")
    rng = random.Random(ctx.seed)
    walks, left = tour(inits, edges, 8, rng)
    if left:
        ctx.inconclusive.append("transition tour left %d edges uncovered" % len(left))
    total = len(walks)
    if q:
        rng.shuffle(walks)
        walks = walks[:40]
    schemes = ["", "bls-unchained-g1-rfc9380", "pedersen-bls-unchained", "bls-bn254-unchained-on-g1"]
    scripts = []
    for k, (init, steps) in enumerate(walks):
        scripts.append({"name": "tour-%d" % k, "disk": inits[init],
                        "steps": [{"kind": e[2], "id": e[3]} for e in steps], "stride": 1,
                        "scheme": "" if q else schemes[k % len(schemes)]})
    rp = getattr(ctx, "replay", None)
    if rp:
        sc = json.load(open(rp)).get("script")
        if not sc:
            raise core.Inconclusive("replay file %s holds no script" % rp)
        scripts = [sc]
        ctx.notes.append("replaying only the walk of %s" % rp)
    covered = set()
    for _, steps in walks:
        covered.update(steps)
    ctx.notes.append("DaemonRouting state graph: %d initial states, %d labelled edges; tour = %d walks (<= 8 steps); "
                     "replayed %d walks covering %d edges" % (len(inits), len(edges), total, len(walks), len(covered)))
    ctx.extra["routing_edges_total"] = len(edges)
    ctx.extra["routing_edges_replayed"] = len(covered)
    inp = os.path.join(ctx.work, "routing-scripts.ndjson")
    write_scripts(inp, scripts)
    # 3. real daemon
    tmp = os.path.join(ctx.work, "tmp")
    os.makedirs(tmp, exist_ok=True)
    env = {"VERIF_IN": inp, "TMPDIR": tmp, "VERIF_DB": "memdb" if q else "bolt"}
    trace = run_harness(ctx, "./internal/core", "TestVerifRouting", "routing.ndjson", env=env,
                        timeout=600 if q else 1500, tags="verif,conn_insecure")
    # 4. TLC decides
    ok, alarms, res = ctx.validate_trace("Trace_DaemonRouting", "Trace_DaemonRouting.cfg", trace, timeout=1500)
    nreq = count_lines(trace, "Req")
    nact = count_lines(trace, "Act")
    if ok:
        ctx.traces += count_lines(trace, "Reset")
    ctx.extra["routing_requests_checked"] = nreq
    ctx.extra["routing_actions_replayed"] = nact
    ctx.sample({"stage": "routing", "trace_head": sample_lines(trace, 3)})
    drift = [a for a in alarms if a["mon"] in DRIFT]
    by_name = {sc["name"]: sc for sc in scripts}
    seen = set()
    for a in sorted(alarms, key=lambda a: a["line"]):
        if a["mon"] in monitors:
            sig = {"stage": "routing", "mon": a["mon"], "ep": a["ep"], "detail": a["detail"]}
            key = json.dumps(sig, sort_keys=True)
            if key in seen:
                continue
            seen.add(key)
            ctx.alarm(sig,
                      "daemon routing: monitor %s failed for %s(id=%s, hash=%s): %s (trace line %s, scenario %s)"
                      % (a["mon"], a["ep"], a["id"], a["hash"], a["detail"], a["line"], a["scenario"]),
                      replay=write_replay(ctx, sig, a, by_name.get(a["scenario"])))
    if drift:
        ctx.inconclusive.append("daemon routing: %d differences between the daemon and DaemonRouting.tla (model drift / harness), first: %s"
                                % (len(drift), drift[0]))
    return ok
