"""Stage: DKG control + authentication (internal/dkg) <-> spec/DKG.tla.
Serves C08 (legal transitions, failures keep the last good epoch) and C09 (control
messages only from the member they claim to be from).

  1. design level: exhaustive TLC of the open one-node model, one config per role
     (leader / member / leaver / joiner); every kind of monitor failure the model shows is
     printed once with a shortest history (a *model* counterexample, never a verdict);
  2. spec -> code: those histories + TLC -simulate walks (multi-epoch, abort / fail / retry,
     forged and tampered packets) are concretised by the Go harness with real keys and real
     signatures and stepped through a real dkg.Process with a real bolt store and real kyber
     executions against harness-run peers;
  3. code -> spec: TLC (Trace_DKG) re-applies the transition function to every recorded call,
     compares result + both buckets (Conformance) and evaluates the TLA+ monitors on the
     OBSERVED values.  Only those monitor failures become alarms.
"""
import concurrent.futures, json, os, random, re
import core
from stages.common import *

MON_C08 = {"LegalStep", "EpochMonotone", "FinishedOnlyByLaterComplete", "RejectedKeepsFinished",
           "RejectedLeavesUsable", "InvalidProposalRejected", "StillUsable"}
MON_C09 = {"C09_SignedBySender", "C09_KeyFromGroup", "C09_Entitled", "C09_SigCoversTerms", "C09_AcceptedUnauthenticated"}
DRIFT = {"Conformance", "Harness", "Blocked"}

ROLES = ["leader", "member", "leaver", "joiner"]


def _record(ctx, module, cfg, r, expect_ok=True):
    """same bookkeeping as Ctx.model_check (runs here are started in parallel)"""
    ctx.states += r.distinct
    ctx.transitions += r.generated
    ctx.tlc_runs.append({"module": module, "cfg": cfg, "distinct": r.distinct, "generated": r.generated,
                         "depth": r.depth, "wall_s": round(r.wall, 1), "finished": r.finished,
                         "violated": r.violated, "error": r.error})
    ctx.log("TLC %s/%s: %d distinct / %d generated, depth %d, %.1fs%s%s" % (
        module, cfg, r.distinct, r.generated, r.depth, r.wall,
        " VIOLATED " + r.violated if r.violated else "", " ERROR " + str(r.error) if r.error else ""))
    if r.timeout:
        ctx.exhaustive = False
        ctx.inconclusive.append("TLC timeout on %s/%s" % (module, cfg))
    elif r.error:
        ctx.inconclusive.append("TLC error on %s/%s: %s\n%s" % (module, cfg, r.error, r.out[-1500:]))
    elif r.violated and expect_ok:
        ctx.inconclusive.append("model counterexample on %s/%s (%s) - not a verdict until reproduced on real code\n%s"
                                % (module, cfg, r.violated, r.out[-3000:]))
    if not r.finished:
        ctx.exhaustive = False


def _design_level(ctx):
    """exhaustive TLC per role; returns the model counterexamples printed by the Report constraint"""
    if ctx.quick:      # reduced catalogue, 2 epochs, exploration stops behind a compromised group
        jobs = [("Sim_DKG", "MC_DKG_%s.cfg" % r) for r in ROLES]
    else:              # complete catalogue over 2 epochs for every role + 3 epochs (reduced catalogue) for member and leaver
        jobs = [("Sim_DKG", "MC_DKG_%s_full.cfg" % r) for r in ROLES] + \
               [("Sim_DKG", "MC_DKG_%s_deep.cfg" % r) for r in ("member", "leaver")]
    per = max(2, core.NCPU // len(jobs))
    dirs = [ctx.sub(cfg.replace(".cfg", "")) for _, cfg in jobs]
    tmo = 400 if ctx.quick else 2400

    def one(i):
        return core.run_tlc(dirs[i], jobs[i][0], jobs[i][1], workers=per, timeout=tmo)
    with concurrent.futures.ThreadPoolExecutor(len(jobs)) as ex:
        res = list(ex.map(one, range(len(jobs))))
    best, tour = {}, {}
    for (module, cfg), r in zip(jobs, res):
        _record(ctx, module, cfg, r)
        for tag, obj in core.parse_vp_prints(r.prints):
            if not obj:
                if tag in ("CEX", "EDGE", "SWEEP"):
                    ctx.inconclusive.append("dkgcontrol: unparsable %s line printed by TLC (%s)" % (tag, cfg))
                continue
            # one TLC worker = one copy of the registers: keep a shortest (then smallest) history per class
            rank = lambda o: (len(o["steps"]), json.dumps(o["steps"], sort_keys=True))
            if tag == "CEX":
                k = (obj["mon"], obj["detail"], obj["me"])
                if k not in best or rank(obj) < rank(best[k]):
                    best[k] = obj
            elif tag in ("EDGE", "SWEEP"):
                k = (tag, obj["me"], obj["cls"])
                if k not in tour or rank(obj) < rank(tour[k]):
                    tour[k] = obj
    return best, tour


def _walks(ctx):
    n = 24 if ctx.quick else 240
    sim = ctx.model_check("Sim_DKG", "Sim_DKG.cfg", workers=1, simulate="num=%d" % n, depth=30,
                          seed=ctx.seed, timeout=600 if ctx.quick else 1200)
    out = []
    for i, (tag, obj) in enumerate(core.parse_vp_prints(sim.prints)):
        if tag == "BEH" and obj:
            out.append({"name": "tlc-walk-%d" % i, "me": obj["me"],
                        "steps": [s for s in obj["steps"] if s.get("k") in ("cmd", "pkt", "time", "exec")]})
    return out


def _with_replays(rng, script, idx):
    """copy of a walk in which some packets are re-sent byte-identically (Process.SeenPackets)"""
    steps = []
    for s in script["steps"]:
        steps.append(s)
        if s.get("k") == "pkt" and rng.random() < 0.5:
            steps.append({"k": "replay"})
    return {"name": "tlc-walk-replayed-%d" % idx, "me": script["me"], "steps": steps}


def _validate_chunks(ctx, trace, n, timeout):
    lines = open(trace).read().splitlines(True)
    starts = [i for i, l in enumerate(lines) if '"ev":"Reset"' in l]
    if not starts:
        ctx.inconclusive.append("dkgcontrol: the harness recorded no scenario")
        return False, [], []
    per = max(1, (len(starts) + n - 1) // n)
    cuts = [starts[i] for i in range(0, len(starts), per)] + [len(lines)]
    files = []
    for k in range(len(cuts) - 1):
        f = os.path.join(ctx.work, "dkgcontrol-part%d.ndjson" % k)
        with open(f, "w") as fh:
            fh.writelines(lines[cuts[k]:cuts[k + 1]])
        files.append((f, cuts[k]))
    dirs = [ctx.sub("trace-Trace_DKG-part%d" % k) for k in range(len(files))]

    def one(k):
        return core.run_tlc(dirs[k], "Trace_DKG", "Trace_DKG.cfg", workers=1, timeout=timeout, dfs_queue=True,
                            files={files[k][0]: "trace.ndjson"})
    with concurrent.futures.ThreadPoolExecutor(len(files)) as ex:
        res = list(ex.map(one, range(len(files))))
    ok, alarms, dones = True, [], []
    for k, r in enumerate(res):
        ctx.states += r.distinct
        ctx.transitions += r.generated
        al, done = [], None
        for tag, obj in core.parse_vp_prints(r.prints):
            if tag == "ALARMS" and obj is not None:
                al = obj if isinstance(obj, list) else [obj]
            if tag == "DONE":
                done = obj
        acc = r.ok() and done is not None
        ctx.tlc_runs.append({"module": "Trace_DKG", "cfg": "Trace_DKG.cfg", "trace": os.path.basename(files[k][0]),
                             "distinct": r.distinct, "generated": r.generated, "wall_s": round(r.wall, 1),
                             "accepted": acc, "alarms": len(al), "violated": r.violated, "error": r.error})
        ctx.log("TRACE Trace_DKG on %s: accepted=%s alarms=%d (%d states, %.1fs)" % (
            os.path.basename(files[k][0]), acc, len(al), r.distinct, r.wall))
        if not acc:
            ok = False
            ctx.inconclusive.append("trace %s not consumed by Trace_DKG (%s)\n%s" % (
                files[k][0], r.violated or r.error or "no DONE marker", r.out[-3000:]))
        for a in al:
            a["line"] = a.get("line", 0) + files[k][1]      # line number in the whole trace
        alarms += al
        if done:
            dones.append(done)
    return ok, alarms, dones


def _replay_file(ctx, script, sig):
    """a violation's replay = the scenario's script (check.py <Cnn> --replay <file> re-executes it)"""
    import hashlib
    os.makedirs(os.path.join(core.ROOT, "replays"), exist_ok=True)
    h = hashlib.sha1(json.dumps(sig, sort_keys=True).encode()).hexdigest()[:10]
    path = os.path.join(core.ROOT, "replays", "%s-%s.ndjson" % (ctx.prop, h))
    with open(path, "w") as fh:
        fh.write(json.dumps(script) + "\n")
    return path


def run(ctx, monitors):
    q = ctx.quick
    if getattr(ctx, "replay", None):
        # re-execute one recorded scenario on the real code and judge it again
        scripts = [json.loads(l) for l in open(ctx.replay) if l.strip()]
        cex, tour, kinds = {}, {}, []
        ctx.exhaustive = False
        return _execute(ctx, monitors, scripts, kinds)
    # 1. design level
    cex, tour = _design_level(ctx)
    kinds = sorted({(m, d) for (m, d, _) in cex})
    ctx.notes.append("design model (DKG.tla, code as it is) shows %d kinds of monitor failure: %s"
                     % (len(kinds), ", ".join("%s/%s" % k for k in kinds)))
    scripts = []
    for (mon, det, me), obj in sorted(cex.items()):
        scripts.append({"name": "tlc-cex-%s-%s-%s" % (mon, det, me), "me": me,
                        "steps": [s for s in obj["steps"] if s.get("k") in ("cmd", "pkt", "time", "exec")]})
    ncex = len(scripts)
    # transition tour of the status graph + catalogue sweeps (every refused call in every class of state).
    # Sweeps whose history is a prefix of another sweep's history are chained into one scenario (refused
    # calls change nothing), except while an execution is running (its timing must not be disturbed).
    nsweepcalls = 0
    calls = lambda steps: [s for s in steps if s.get("k") in ("cmd", "pkt", "time", "exec")]
    sweeps = []
    for (tag, me, cls), obj in sorted(tour.items()):
        if tag == "EDGE":
            scripts.append({"name": "tlc-edge-%s-%d" % (me, len(scripts)), "me": me, "steps": calls(obj["steps"])})
        else:
            extra = sorted(obj["sweep"], key=lambda x: json.dumps(x, sort_keys=True))
            nsweepcalls += len(extra)
            sweeps.append({"me": me, "hist": calls(obj["steps"]), "extra": extra, "running": '"running"' in cls,
                           "key": json.dumps(calls(obj["steps"]), sort_keys=True)[:-1]})
    sweeps.sort(key=lambda w: (-len(w["hist"]), w["me"], w["key"]))
    used = set()
    for i, w in enumerate(sweeps):
        if i in used:
            continue
        used.add(i)
        inserts = {len(w["hist"]): list(w["extra"])}
        for j, v in enumerate(sweeps):
            if j in used or v["me"] != w["me"] or v["running"] or len(v["hist"]) >= len(w["hist"]):
                continue
            if w["key"].startswith(v["key"]) and len(v["hist"]) not in inserts:
                inserts[len(v["hist"])] = list(v["extra"])
                used.add(j)
        steps = list(inserts.get(0, []))
        for n, st in enumerate(w["hist"]):
            steps.append(st)
            steps += inserts.get(n + 1, [])
        scripts.append({"name": "tlc-sweep-%s-%d" % (w["me"], len(scripts)), "me": w["me"], "steps": steps})
    ntour = len(scripts) - ncex
    ctx.notes.append("transition tour: %d status-graph edges and %d catalogue sweeps (%d refused calls) over the 4 roles"
                     % (sum(1 for k in tour if k[0] == "EDGE"), sum(1 for k in tour if k[0] == "SWEEP"), nsweepcalls))
    # 2. spec -> code
    walks = _walks(ctx)
    rng = random.Random(ctx.seed)
    scripts += walks
    scripts += [_with_replays(rng, w, i) for i, w in enumerate(walks[: (4 if q else 30)])]
    # a script that is a prefix of another one adds nothing
    keys = [json.dumps(s["steps"], sort_keys=True)[:-1] for s in scripts]
    keep = []
    for i, s in enumerate(scripts):
        if s["name"].startswith("tlc-edge") and any(j != i and scripts[j]["me"] == s["me"] and keys[j].startswith(keys[i]) and (len(keys[j]) > len(keys[i]) or j < i)
                                                     for j in range(len(scripts))):
            continue
        keep.append(s)
    ctx.notes.append("replayed on the real dkg.Process: %d shortest model counterexamples, %d tour/sweep scripts (%d edge scripts subsumed as prefixes), %d TLC walks, %d walks with byte-identical re-sends"
                     % (ncex, ntour, len(scripts) - len(keep), len(walks), len(scripts) - ncex - ntour - len(walks)))
    scripts = keep
    if len(walks) == 0:
        ctx.inconclusive.append("dkgcontrol: TLC produced no simulation walk")
    return _execute(ctx, monitors, scripts, kinds)


def _execute(ctx, monitors, scripts, kinds):
    q = ctx.quick
    byname = {s["name"]: s for s in scripts}
    inp = os.path.join(ctx.work, "dkg-scripts.ndjson")
    write_scripts(inp, scripts)
    trace = run_harness(ctx, "./internal/dkg", "TestVerifDKGControl", "dkgcontrol.ndjson", env={"VERIF_IN": inp},
                        timeout=1800 if q else 3000)
    # 3. code -> spec (the trace is cut at scenario boundaries and validated by several TLC runs in parallel)
    ok, alarms, dones = _validate_chunks(ctx, trace, 6 if q else 8, 900 if q else 2400)
    nscen = count_lines(trace, "Reset")
    summary = {}
    with open(trace) as fh:
        for line in fh:
            if '"ev":"Summary"' in line:
                summary = json.loads(line)
    if ok:
        ctx.traces += nscen - int(summary.get("dropped_late", 0) or 0)
    ctx.notes.append("trace: %d scenarios, %d real calls judged, %d changed DKG state (%d of them gossip packets)"
                     % (nscen, sum(d.get("steps", 0) for d in dones), sum(d.get("changed", 0) for d in dones),
                        sum(d.get("pkt_changed", 0) for d in dones)))
    ctx.notes.append("harness summary: %s" % json.dumps({k: v for k, v in summary.items() if k not in ("ev", "seq")}))
    ctx.sample({"stage": "dkgcontrol", "trace_head": sample_lines(trace, 3, 600)})
    if summary and summary.get("scenarios", 0) and summary.get("dropped_late", 0) * 4 > summary["scenarios"]:
        ctx.inconclusive.append("dkgcontrol: %d of %d scenarios dropped because the machine was too slow for the scripted timeouts"
                                % (summary["dropped_late"], summary["scenarios"]))
    npanic = {}
    with open(trace) as fh:
        for line in fh:
            if '"res":"panic"' in line:
                e = json.loads(line)
                k = "%s in %s" % ((e["x"].get("typ") or e["x"].get("cmd") or e["x"]["k"]), e["cur"]["st"])
                npanic[k] = npanic.get(k, 0) + 1
    if npanic:
        ctx.notes.append("calls into dkg.Process that panicked (nil dereference, recovered by the harness; modelled as result 'panic', left to C14): %s"
                         % json.dumps(npanic, sort_keys=True))
    if summary.get("wedged"):
        ctx.inconclusive.append("dkgcontrol: %d scenario(s) abandoned because a call into dkg.Process did not return" % summary["wedged"])
    drift = [a for a in alarms if a["mon"] in DRIFT]
    seen = {}
    for a in alarms:
        if a["mon"] in monitors:
            sig = {"stage": "dkgcontrol", "mon": a["mon"], "detail": a["detail"], "what": a["what"], "pre": a["pre"]}
            ctx.alarm(sig,
                      "dkg.Process (node %s): monitor %s failed (%s) on %s in state %s, trace line %s, scenario %s"
                      % (a["me"], a["mon"], a["detail"], a["what"], a["pre"], a["line"], a["scenario"]),
                      replay=_replay_file(ctx, byname[a["scenario"]], sig) if a["scenario"] in byname else None)
        elif a["mon"] not in DRIFT:
            seen[a["mon"]] = seen.get(a["mon"], 0) + 1
    info = {k: v for k, v in seen.items() if k.startswith("Info_")}
    seen = {k: v for k, v in seen.items() if not k.startswith("Info_")}
    if info:
        ctx.notes.append("observations that are not part of the verdict: %s (Info_TimedOutNeedsAbort: no code path ever sets status TimedOut; "
                         "after the proposal timeout the next proposal is refused until an explicit abort, which the check shows to work)"
                         % json.dumps(info, sort_keys=True))
    if seen:
        ctx.notes.append("monitor failures of the sibling property observed in the same trace (judged by its own check): %s"
                         % json.dumps(seen, sort_keys=True))
    if drift:
        ctx.inconclusive.append("dkgcontrol: %d conformance differences between internal/dkg and DKG.tla (model drift), first: %s"
                                % (len(drift), json.dumps(sorted(drift, key=lambda a: a["line"])[0], sort_keys=True)))
    # the model counterexamples must have reproduced, otherwise the model is wrong about the code
    observed = {(a["mon"], a["detail"]) for a in alarms}
    missing = [k for k in kinds if k[0] in monitors and k not in observed and k[0] != "Panic"]
    if missing and ok:
        ctx.inconclusive.append("dkgcontrol: model counterexamples that did NOT reproduce on the real code (model drift): %s" % missing)
    return ok
