"""Stage: crash consistency (C13) <-> spec/Persist.tla.

Design level: TLC explores every crash point of the scripted run (and of a family of runs)
exhaustively.  Binding: TLC prints the run's persistence steps and crash points
(Sim_Persist); the Go harness TestVerifPersist executes the run on a real DrandDaemon,
realises the crash points as directory snapshots taken while the writer is parked at the
step, restarts a fresh daemon on every snapshot and records what it found; TLC
(Trace_Persist) replays the recorded steps with the specification's operators and evaluates
the monitors of C13 on the observed restart records."""
import json, os, random
import core
from stages.common import *

MON_C13 = {"ChainIntact", "FinishedWhole", "DkgDbConsistent", "KeyEpoch", "Resumes"}

KEY_OPS = {"SaveFinishedTx", "CreateTruncate", "WriteSome", "Write", "DeleteShare", "DeleteGroup"}
STD_NAME = "std"


def _scenarios_from(sim):
    """STEPS/POINT prints of Sim_Persist -> {script_json: {"script", "steps", "points": {k: point}}}"""
    scen = {}
    for tag, obj in core.parse_vp_prints(sim.prints):
        if not obj:
            continue
        key = json.dumps(obj["script"])
        s = scen.setdefault(key, {"script": obj["script"], "steps": None, "points": {}})
        if tag == "STEPS":
            s["steps"] = obj["steps"]
        elif tag == "POINT":
            s["points"][int(obj["k"])] = obj
    return scen


def _select(points, rng, quick):
    ks = sorted(points)
    if not quick:
        return ks
    must = [k for k in ks if k == 0 or points[k]["after"]["op"] in KEY_OPS or points[k]["after"]["op"] == "BeaconTx"]
    rest = [k for k in ks if k not in must]
    rng.shuffle(rest)
    return sorted(set(must + rest[:8]))


def run(ctx, monitors):
    q = ctx.quick
    rng = random.Random(ctx.seed)
    # 1. design level, exhaustive over all crash points
    ctx.model_check("Persist", "MC_Persist.cfg", coverage=not q, workers=4)
    ex = ctx.exhaustive
    r = ctx.model_check("Persist", "MC_Persist_c13.cfg", expect_ok=False, workers=4)
    ctx.exhaustive = ex   # (TLC stops at the expected counterexample; the other configs are complete)
    ctx.notes.append("MC_Persist_c13 (whole statement of C13 on the design as coded): %s - a model counterexample, "
                     "decided on the real code by the replay below" % (r.violated or "holds"))
    ctx.model_check("Persist", "MC_Persist_fixed.cfg", workers=4)
    if not q:
        ctx.model_check("Persist", "MC_Persist_family.cfg", workers=4)
    # 2. spec -> code: the runs, their persistence steps and their crash points, from TLC
    sim = ctx.model_check("Sim_Persist", "Sim_Persist.cfg", workers=1)
    scen = _scenarios_from(sim)
    if len(scen) != 1:
        raise core.Inconclusive("Sim_Persist printed %d runs, expected the standard one" % len(scen))
    std = list(scen.values())[0]
    jobs = [{"name": STD_NAME, "script": std["script"], "points": _select(std["points"], rng, q), "scheme": ""}]
    if not q:
        for sch in ("pedersen-bls-unchained", "bls-unchained-g1-rfc9380"):
            jobs.append({"name": STD_NAME + "-" + sch, "script": std["script"], "points": sorted(std["points"]), "scheme": sch})
        fam = ctx.model_check("Sim_Persist", "Sim_Persist_family.cfg", workers=1, timeout=600)
        fs = _scenarios_from(fam)
        keys = sorted(fs)
        rng.shuffle(keys)
        for i, k in enumerate(keys[:24]):
            jobs.append({"name": "family-%d" % i, "script": fs[k]["script"], "points": sorted(fs[k]["points"]), "scheme": ""})
        ctx.notes.append("runs of the family printed by TLC: %d, replayed: 24 (seeded choice)" % len(fs))
    if getattr(ctx, "replay", None):
        # --replay <file written for an earlier violation>: only that run and crash point
        jobs = [json.loads(l) for l in open(ctx.replay) if l.strip()]
        ctx.notes.append("replay of %s" % ctx.replay)
    inp = os.path.join(ctx.work, "persist-scenarios.ndjson")
    write_scripts(inp, jobs)
    npoints = sum(len(j["points"]) for j in jobs)
    ctx.notes.append("crash points realised on the real daemon: %d in %d run(s) (%s)" % (
        npoints, len(jobs), "all key-file / completion / beacon-transaction points + seeded sample of the others" if q else "all"))
    # 3. real code: scripted run, snapshots at the crash points, one fresh daemon per snapshot
    trace = run_harness(ctx, "./internal/core", "TestVerifPersist", "persist.ndjson", env={"VERIF_IN": inp},
                        tags="verif,conn_insecure", timeout=1500)
    restarts = [json.loads(l) for l in open(trace) if '"ev":"Restart"' in l]
    nrestart = sum(1 for e in restarts if e.get("c", 0) == 0)
    nmid = len(restarts) - nrestart
    ncommit = count_lines(trace, "Commit")
    ctx.notes.append("bolt write transactions of dkg.db / chain db observed at commit grain: %d; crash points inside a step "
                     "(a commit followed by another commit of the same step): %d" % (ncommit, nmid))
    if count_lines(trace, "Watch") < 2 * count_lines(trace, "Reset"):
        ctx.inconclusive.append("persist: the bolt commits of dkg.db / chain db could not be observed (bbolt internals changed?)")
    if nrestart != npoints or ('"what":"crash point not reached"' in open(trace).read()):
        ctx.inconclusive.append("persist: %d of %d crash points were realised by the harness" % (nrestart, npoints))
    # 4. code -> spec
    ok, alarms, res = ctx.validate_trace("Trace_Persist", "Trace_Persist.cfg", trace, timeout=900)
    if ok:
        ctx.traces += count_lines(trace, "Reset")
    ctx.extra["crash_points_restarted"] = nrestart + nmid
    ctx.sample({"stage": "persist", "trace_head": sample_lines(trace, 3)})
    with open(trace) as fh:
        for line in fh:
            if '"ev":"Restart"' in line and '"refusesToStart"' in line:
                ctx.sample({"stage": "persist", "restart": line.strip()[:600]})
                break
    drift = []
    tlines = open(trace).read().splitlines()
    byname = {j["name"]: j for j in jobs}
    known = [k for k in core.load_known() if k.get("property") == ctx.prop and k.get("status") == "known"]
    for a in alarms:
        d = a.get("detail", {})
        if a["mon"] in monitors:
            sig = {"stage": "persist", "mon": a["mon"], "cause": d.get("cause"), "group": d.get("group"),
                   "share": d.get("share"), "outcome": d.get("outcome")}
            rp = None
            if not any(core.sig_matches(k["signature"], sig) for k in known):
                # a replay script: the run and the one crash point, for check.py C13 --replay <file>
                try:
                    k = json.loads(tlines[int(a["line"]) - 1])["j"]
                    job = dict(byname[a["scenario"]], points=[k])
                    os.makedirs(os.path.join(core.ROOT, "replays"), exist_ok=True)
                    rp = os.path.join(core.ROOT, "replays", "%s-%s-k%d-%s.ndjson" % (ctx.prop, a["scenario"], k, a["mon"]))
                    write_scripts(rp, [job])
                except Exception:
                    rp = None
            ctx.alarm(sig, "crash consistency: monitor %s failed at trace line %s (%s; crash %s, group file %s, share %s, restart %s; run %s)"
                      % (a["mon"], a["line"], d.get("what"), d.get("cause"), d.get("group"), d.get("share"),
                         d.get("outcome"), a["scenario"]), replay=rp)
        elif a["mon"] == "Conformance":
            drift.append(a)
    if drift:
        ctx.inconclusive.append("persist: %d conformance differences between the daemon and Persist.tla (model drift), first: %s"
                                % (len(drift), json.dumps(drift[0])[:600]))
    ctx.notes.append("observation, not a finding (outside the quantifier): BeaconProcess.leaveNetwork (fileStore.Reset while dkg.db keeps the completed "
                     "epoch => every later restart refuses with ErrDKGNotStarted; StopAt(old TransitionTime-1) fails 'in the past', handler keeps running: "
                     "F16/F17 of DESIGN 8) was reproduced only by feeding the daemon's completed-DKG channel by hand; no production path reaches it in this "
                     "tree (the only producer, executeAndFinishDKG, never emits a group without the node itself), so no scripted run contains it")
    ctx.assumptions += [
        "bbolt transaction atomicity and durability are trusted: a crash is a copy of the files between committed transactions; every commit of dkg.db and of the chain db is observed (bbolt's page writer db.ops.writeAt is wrapped by reflection, a meta page write = commit), a step of the specification must be exactly the number of transactions it says, a commit followed by another commit inside one step is a crash point of its own",
        "a crash is realised as a copy of the node's directories taken while the writer is parked at the step (process death; not power loss with unsynced pages)",
        "a torn key file is the prefix of the new bytes of length 0 (observed after os.Create) and of half the length (derived from the completed write)",
        "the kyber DKG protocol is not run: the harness performs the tail of dkg.Process.executeAndFinishDKG (Complete, SaveFinished, fan-out send) itself in the code's order on the daemon's real store and channel",
        "restart = a fresh DrandDaemon (NewDrandDaemon + LoadBeaconsFromDisk) in the harness process on the copy, not a fresh OS process; 'resumes' = the beacon handler is created and running",
    ]
    return ok
