"""Stage: peer-facing / public endpoints of a DrandDaemon <-> spec/DaemonEndpoints.tla (C14).

1. TLC explores the lock model: every (node state x endpoint x request class) program run in sequences of up to
   3 calls (Seq), and one request interleaved with one internal event of the daemon at lock operations (Conc).
   Both configurations must hold (the defects F1 and F40 they used to report are repaired; should a defect be
   confirmed and left open again, DaemonEndpoints has the constants Skip / NoScan to explore around it).
2. The Go harness replays every (state, endpoint, shape) edge on real daemons, directly and through the real
   gRPC / REST listeners, with probes afterwards, and records an ndjson trace.
3. TLC validates the trace with Trace_DaemonEndpoints: Responds / StillServes / NoLockLeft / LoopAlive /
   ProcessAlive are evaluated on the observations; differences with the specification's programs are drift.
"""
import hashlib, json, os
import core
from stages.common import *

MONITORS = {"Responds", "StillServes", "NoLockLeft", "LoopAlive", "ProcessAlive", "NoDeadlock"}
DRIFT = {"Conformance", "Harness"}
PKG = "./internal/core"
TAGS = "verif,conn_insecure"


def write_replay(ctx, sig, alarm, extra=None):
    d = os.path.join(core.ROOT, "replays")
    os.makedirs(d, exist_ok=True)
    h = hashlib.sha1(json.dumps(sig, sort_keys=True).encode()).hexdigest()[:10]
    p = os.path.join(d, "%s-%s.json" % (ctx.prop, h))
    body = {"property": ctx.prop, "seed": ctx.seed, "tier": ctx.tier, "signature": sig, "alarm": alarm}
    body.update(extra or {})
    with open(p, "w") as fh:
        json.dump(body, fh, indent=1)
    return p


def run_endpoint_harness(ctx, env):
    """Runs TestVerifEndpoints; a crash of the harness process is an observation (Crash events), not a tool failure."""
    b = bin_for(ctx, PKG, TAGS)
    out = os.path.join(ctx.work, "endpoints.ndjson")
    e = {"VERIF_OUT": out, "VERIF_SEED": str(ctx.seed), "VERIF_TIER": ctx.tier}
    e.update(env)
    rc, o, wall = core.run_test_bin(b, PKG, "^TestVerifEndpoints$", env=e, timeout=600 if ctx.quick else 2400)
    ctx.log("harness %s TestVerifEndpoints: rc=%d %.1fs" % (PKG, rc, wall))
    if not os.path.exists(out):
        raise core.Inconclusive("endpoint harness wrote no trace (rc=%d):\n%s" % (rc, o[-3000:]))
    rows = [json.loads(l) for l in open(out) if l.strip()]
    done = any(r["ev"] == "Done" for r in rows)
    if rc != 0 or not done:
        crashed = ("panic:" in o) or ("fatal error:" in o) or ("signal " in o)
        if not crashed:
            raise core.Inconclusive("endpoint harness failed (rc=%d):\n%s" % (rc, o[-3000:]))
        # the process died: every request that was in flight is a suspect
        open_calls = {}
        for r in rows:
            if r["ev"] == "Begin":
                open_calls[(r["ns"], r["via"])] = r
            elif r["ev"] == "Call":
                open_calls.pop((r["ns"], r["via"]), None)
        with open(out, "a") as fh:
            for r in open_calls.values():
                c = dict(r)
                c["ev"] = "Crash"
                fh.write(json.dumps(c) + "\n")
        ctx.notes.append("the harness process died; %d requests were in flight; tail of its output: %s" % (len(open_calls), o[-1500:]))
    return out


def triage(ctx, alarms, monitors, stage="endpoints"):
    drift = [a for a in alarms if a["mon"] in DRIFT]
    seen = set()
    for a in sorted(alarms, key=lambda a: a["line"]):
        if a["mon"] not in monitors:
            continue
        conc = str(a["via"]).startswith("conc:")
        if conc:
            # a request racing with an internal step of the daemon: identified by the class of the request and the step
            sig = {"stage": stage + "-conc", "mon": a["mon"], "event": a["via"][5:], "cls": a["cls"], "detail": a["detail"]}
        else:
            sig = {"stage": stage, "mon": a["mon"], "ep": a["ep"], "body": a["body"], "detail": a["detail"]}
        key = json.dumps(sig, sort_keys=True)
        if key in seen:
            continue
        seen.add(key)
        ctx.alarm(sig, "daemon endpoints: monitor %s failed for %s[%s] (gm=%s id=%s hash=%s shape=%s) in node state %s via %s: %s; res=%s on=%s (trace line %s)"
                  % (a["mon"], a["ep"], a["body"], a["gm"], a["id"], a["hash"], a["shape"], a["ns"], a["via"], a["detail"], a["res"], a["on"], a["line"]),
                  replay=write_replay(ctx, sig, a, {"only": "%s/%s" % (a["ep"], a["body"]), "states": a["ns"], "conc": conc}))
    if drift:
        ctx.inconclusive.append("daemon endpoints: %d differences between the daemon and DaemonEndpoints.tla (model drift / harness), first: %s"
                                % (len(drift), drift[0]))


def design_seq(ctx):
    # every endpoint x request class x node state, sequences of up to 3 calls
    ctx.model_check("MC_DaemonEndpoints", "MC_DaemonEndpoints.cfg", name="mc-seq", workers=2, timeout=600)


def design_conc(ctx):
    # one request || one internal step of the daemon, interleaved at lock operations; complete graph
    ctx.model_check("MC_DaemonEndpoints", "MC_DaemonEndpoints_conc.cfg", name="mc-conc", workers=2, timeout=900)


def run(ctx, monitors=MONITORS):
    import threading
    # 1. design level, in the background
    err = []

    def bg(f):
        try:
            f(ctx)
        except Exception as ex:       # noqa
            err.append(ex)
    bin_for(ctx, PKG, TAGS)
    ths = [threading.Thread(target=bg, args=(f,)) for f in (design_seq, design_conc)]
    for th in ths:
        th.start()
    # 2. real daemons
    tmp = os.path.join(ctx.work, "tmp")
    os.makedirs(tmp, exist_ok=True)
    env = {"TMPDIR": tmp}
    rp = getattr(ctx, "replay", None)
    only_conc = only_seq = False
    if rp:
        j = json.load(open(rp))
        if j.get("only"):
            env["VERIF_ONLY"] = j["only"]
            env["VERIF_STATES"] = j.get("states", "fresh,proposal,running,stopped")
            only_conc, only_seq = bool(j.get("conc")), not j.get("conc")
            ctx.notes.append("replaying only %s in %s" % (j["only"], env["VERIF_STATES"]))
    traces = []
    try:
        if not only_conc:
            traces.append(run_endpoint_harness(ctx, env))
        if not only_seq:
            traces.append(run_harness(ctx, PKG, "TestVerifEndpointsConc", "endpoints-conc.ndjson", env=env,
                                      timeout=600 if ctx.quick else 2400, tags=TAGS))
    finally:
        for th in ths:
            th.join()
    if err:
        raise err[0]
    # 3. TLC decides, on both recordings at once
    trace = os.path.join(ctx.work, "endpoints-all.ndjson")
    with open(trace, "w") as out:
        for t in traces:
            for line in open(t):
                if '"ev":"Begin"' not in line:
                    out.write(line)
    ok, alarms, res = ctx.validate_trace("Trace_DaemonEndpoints", "Trace_DaemonEndpoints.cfg", trace, timeout=2400)
    ncall = count_lines(trace, "Call")
    nconc = count_lines(trace, "Conc")
    if ok:
        ctx.traces += ncall + nconc
    ctx.extra["endpoint_calls_checked"] = ncall
    ctx.extra["endpoint_concurrent_scenarios"] = nconc
    ctx.extra["endpoint_worlds"] = count_lines(trace, "World")
    ctx.sample({"stage": "endpoints", "trace_head": sample_lines(trace, 3)})
    triage(ctx, alarms, monitors)
    return ok
