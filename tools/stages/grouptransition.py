"""Stage: BeaconProcess.validateGroupTransition <-> spec/GroupTransition.tla (C07: an adopted reshared group
keeps genesis time, genesis seed, period and beacon id)."""
import os
from stages.common import *

MON_C07 = {"IdentityChanged"}


def run(ctx, monitors=MON_C07):
    ctx.model_check("GroupTransition", "MC_GroupTransition.cfg", timeout=300)
    trace = run_harness(ctx, "./internal/core", "TestVerifGroupTransition", "grouptransition.ndjson", tags="verif,conn_insecure")
    ok, alarms, res = ctx.validate_trace("Trace_GroupTransition", "Trace_GroupTransition.cfg", trace, name="trace-grouptransition")
    if ok:
        ctx.traces += 1
    ctx.sample({"stage": "grouptransition", "cases": count_lines(trace), "trace_head": sample_lines(trace, 2, 160)})
    drift = [a for a in alarms if a["mon"] == "Conformance"]
    for a in alarms:
        if a["mon"] in monitors:
            ctx.alarm({"stage": "grouptransition", "mon": a["mon"], "detail": a["detail"]},
                      "validateGroupTransition adopted a group that changes the chain's %s (trace line %s)" % (a["detail"], a["line"]))
    if drift:
        ctx.inconclusive.append("validateGroupTransition: %d verdicts differ from GroupTransition.tla (model drift), first: %s" % (len(drift), drift[0]))
    return ok
