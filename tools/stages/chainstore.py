"""Stage: the layered store of one node (store.go) <-> spec/ChainStore.tla.  The complete labelled state
graph of the model is dumped by TLC and a transition tour (every (state, operation) edge at least once)
is replayed on the real store stack; TLC validates the recorded trace.  Serves C02."""
import os, random
import core, graph
from stages.common import *

MON_C02 = {"GapFree", "WriteOnce", "Linked", "GrowsByOne", "MutualExclusion", "PutBlocked"}


_GRAPH = {}


def _graph(ctx, chained):
    if chained in _GRAPH:
        return _GRAPH[chained]
    cfg = "MC_ChainStore.cfg" if chained else "MC_ChainStore_unchained.cfg"
    d = ctx.sub("graph-" + ("chained" if chained else "unchained"))
    r, dot = graph.dump_graph(d, "ChainStore", cfg)
    ctx.states += r.distinct
    ctx.transitions += r.generated
    ctx.tlc_runs.append({"module": "ChainStore", "cfg": cfg, "distinct": r.distinct, "generated": r.generated, "finished": r.finished,
                         "violated": r.violated, "error": r.error, "wall_s": round(r.wall, 1),
                         "purpose": "complete labelled state graph (invariants checked) for the transition tour"})
    if not r.ok():
        ctx.inconclusive.append("ChainStore graph dump failed: %s %s" % (r.violated, r.error))
        dot = None
    _GRAPH[chained] = dot
    return dot


def _scripts(ctx, chained, backend, tag, limit):
    dot = _graph(ctx, chained)
    if not dot:
        return []
    rng = random.Random(ctx.seed * 31 + len(tag))
    tour, nstates, nedges = graph.tour(dot, max_scenarios=limit, rng=rng)
    ctx.notes.append("ChainStore %s: %d states, %d labelled edges, tour of %d scenarios on %s" % (tag, nstates, nedges, len(tour), backend))
    out = []
    for i, sc in enumerate(tour):
        steps = []
        for name, args in sc:
            if name == "SyncPut":
                steps.append({"op": "SyncPut", "b": args[0]})
            elif name == "AggPut":
                steps.append({"op": "AggPut", "view": args[0], "b": args[1]})
            elif name == "Restart":
                steps.append({"op": "Restart"})
        steps.append({"op": "FailRace"})
        steps.append({"op": "Race"})
        out.append({"name": "tour-%s-%d" % (tag, i), "chained": chained, "backend": backend, "steps": steps})
    return out


def run(ctx, monitors):
    q = ctx.quick
    _GRAPH.clear()
    scripts = _scripts(ctx, True, "memdb", "chained", None) + _scripts(ctx, False, "memdb", "unchained", 60 if q else None)
    rng = random.Random(ctx.seed + 5)
    for be in ("trimmed", "bolt"):
        scripts += _scripts(ctx, True, be, "chained-" + be, 12 if q else 60)
        scripts += _scripts(ctx, False, be, "unchained-" + be, 6 if q else 60)
    inp = os.path.join(ctx.work, "chainstore-scripts.ndjson")
    write_scripts(inp, scripts)
    trace = run_harness(ctx, "./internal/chain/beacon", "TestVerifChainStore", "chainstore.ndjson", env={"VERIF_IN": inp}, timeout=1200)
    ok, alarms, res = ctx.validate_trace("Trace_ChainStore", "Trace_ChainStore.cfg", trace, timeout=1500)
    if ok:
        ctx.traces += count_lines(trace, "Init")
    ctx.sample({"stage": "chainstore", "trace_head": sample_lines(trace, 3, 300)})
    drift = [a for a in alarms if a["mon"] == "Conformance"]
    for a in alarms:
        if a["mon"] in monitors:
            ctx.alarm({"stage": "chainstore", "mon": a["mon"], "scenario": scen_class(a["scenario"]), "detail": a["detail"]},
                      "store stack: monitor %s failed at trace line %s (%s) in %s" % (a["mon"], a["line"], a["detail"], a["scenario"]))
    if drift:
        ctx.inconclusive.append("store stack: %d conformance differences vs ChainStore.tla (model drift), first: %s" % (len(drift), drift[0]))
    return ok
