"""Stage: encoders/decoders of persisted and transmitted state <-> spec/Codec.tla (C20)."""
import json, os, random
import core
from stages.common import *

STORE_PATHS = ("file", "boltcur", "boltfin")
MON_C20 = {"Mon_RoundTripIdentity", "Mon_RoundTripHash", "Mon_MalformedRejected"}

# which harness runs which (type, path)
def _where(t, path):
    if t == "dbstate" or (t == "badgroup" and path == "dbstate"):
        return "dkg"
    if t == "beacon" and path == "proto":
        return "beacon"
    return "chain"


def run(ctx, monitors):
    q = ctx.quick
    W = int(os.environ.get("VERIF_TLC_WORKERS", "0")) or None
    # ---- 1. design level: every value of the lattice x every path
    if os.environ.get("VERIF_DEV_SKIP_MC"):      # development only (mutation loops)
        ctx.notes.append("design-level TLC runs skipped (VERIF_DEV_SKIP_MC)")
        ctx.exhaustive = False
    else:
        ctx.model_check("Codec", "MC_Codec.cfg" if q else "MC_Codec_big.cfg", workers=W, timeout=900)
    # ---- 2. spec -> code: the lattice enumerated by TLC
    sim = ctx.model_check("Sim_Codec", "Sim_Codec.cfg" if q else "Sim_Codec_big.cfg", workers=1, timeout=300)
    cf = os.path.join(sim.workdir, "codec_catalogue.json")
    if not (sim.ok() and os.path.exists(cf)):
        raise core.Inconclusive("Sim_Codec did not write the catalogue:\n" + sim.out[-1500:])
    cat = json.load(open(cf))
    rng = random.Random(ctx.seed)
    trips = {"chain": [], "dkg": [], "beacon": []}
    counts = {}
    for t, ent in sorted(cat.items()):
        values = ent["values"]
        if q and t == "dbstate":
            # quick: a seed-chosen sample of the 12288 database records, stratified so that every status
            # occurs with and without final group / key share
            strata = {}
            for v in values:
                if v.get("addr", "host") == "host":
                    strata.setdefault((v["status"], v["fgroup"], v["share"]), []).append(v)
            values = [v for v in values if v.get("addr", "host") != "host"]      # every other address kind always
            for k in sorted(strata):
                values += rng.sample(strata[k], 12)
        counts[t] = len(values)
        if not q and t == "dbstate":
            # thorough: the complete lattice with the first scheme, every 8th value (seed-shifted) with the others
            for k, v in enumerate(values):
                for path in ent["paths"]:
                    trips["dkg"].append({"v": v, "path": path, "sel": "first"})
                    if (k + ctx.seed) % 8 == 0:
                        trips["dkg"].append({"v": v, "path": path, "sel": "rest"})
                    if path == "boltcur" or (path == "boltfin" and k % 8 == 0):
                        for o in ent["overs"]:
                            trips["dkg"].append({"v": v, "path": path, "over": o, "sel": "first"})
            continue
        for k, v in enumerate(values):
            for path in ent["paths"]:
                trips[_where(t, path)].append({"v": v, "path": path})
                # store paths: the same name held another value before (what is read back is what was written last)
                if path in STORE_PATHS and not (t == "dbstate" and path == "boltfin" and k % 4):
                    for o in ent["overs"]:
                        trips[_where(t, path)].append({"v": v, "path": path, "over": o})
    ctx.notes.append("values of the lattice sent through the real encoders/decoders (per scheme): %s; trips: %s"
                     % (counts, {k: len(v) for k, v in trips.items()}))
    ctx.extra["catalogue"] = {t: len(e["values"]) for t, e in cat.items()}
    # ---- 3. real code
    parts = []
    for name, pkg, test in (("chain", "./common/chain", "TestVerifCodec"), ("dkg", "./internal/dkg", "TestVerifCodecDKG"),
                            ("beacon", "./internal/chain/beacon", "TestVerifCodecBeacon")):
        inp = os.path.join(ctx.work, "codec-trips-%s.ndjson" % name)
        write_scripts(inp, trips[name])
        parts.append(run_harness(ctx, pkg, test, "codec-%s.ndjson" % name, env={"VERIF_IN": inp}, timeout=1500))
    trace = os.path.join(ctx.work, "codec.ndjson")
    with open(trace, "w") as out:
        for p in parts:
            out.write(open(p).read())
    # ---- 4. code -> spec
    ok, alarms, res = ctx.validate_trace("Trace_Codec", "Trace_Codec.cfg" if q else "Trace_Codec_big.cfg", trace, timeout=2400)
    n = count_lines(trace)
    if ok:
        ctx.traces += n
    ctx.sample({"stage": "codec", "trace_head": sample_lines(parts[0], 2, 600) + sample_lines(parts[1], 1, 600)})
    ctx.extra["schemes"] = sorted({json.loads(l)["scheme"] for l in open(parts[0])})
    drift = []
    for a in alarms:
        if a["mon"] in monitors:
            sig = {"stage": "codec", "mon": a["mon"], "type": a["type"], "path": a["path"], "fields": ",".join(sorted(a["fields"])),
                   "overwrite": bool(a.get("overwrite"))}
            ctx.alarm(sig, "%s via %s%s: %s failed (scheme %s): fields %s, %s"
                      % (a["type"], a["path"], " (saved over an earlier value under the same name)" if a.get("overwrite") else "",
                         a["mon"], a["scheme"], sorted(a["fields"]), a["detail"]))
        else:
            drift.append(a)
    if drift:
        ctx.inconclusive.append("codec: %d events are not values/paths of Codec.tla (harness and specification disagree), first: %s" % (len(drift), drift[0]))
    return ok
