"""Stage: partialCache (cache.go) <-> spec/PartialCache.tla.  Serves C03 (distinct signers,
duplicates never count) and C12 (per-signer bound, no cross eviction)."""
import os
import core
from stages.common import *

MON_C03 = {"DistinctCount", "DuplicateIsNoOp", "FlushExact", "Panicked"}
MON_C12 = {"SigsBounded", "RcvdBounded", "NoCrossEviction", "Panicked"}


def run(ctx, monitors):
    q = ctx.quick
    # 1. design level, exhaustive on small constants (complete state graph)
    ctx.model_check("PartialCache", "MC_PartialCache.cfg", coverage=not q)
    ctx.model_check("PartialCache", "MC_PartialCache_single.cfg")
    if not q:
        ctx.model_check("PartialCache", "MC_PartialCache_big.cfg", timeout=1500)
    # per-signer bounds with two cooperating signers (the original code violated SigsBounded here: F18, fixed)
    ctx.model_check("PartialCache", "MC_PartialCache_bound.cfg")
    # 2. spec -> code: TLC simulation walks at the real constant, printed as scripts
    n = 2 if q else 10
    sim = ctx.model_check("Sim_PartialCache", "Sim_PartialCache.cfg", workers=1, simulate="num=%d" % n,
                          depth=602, seed=ctx.seed, timeout=900)
    scripts = []
    for i, (tag, obj) in enumerate(core.parse_vp_prints(sim.prints)):
        if obj:
            scripts.append({"name": ("tlc-cex-%d" if tag == "CEX" else "tlc-walk-%d") % i,
                            "steps": [s for s in obj if s.get("kind") in ("append", "flush")]})
    ctx.notes.append("TLC walks replayed on the real cache: %d (%d tagged as model counterexamples of SigsBounded)"
                     % (len(scripts), sum(1 for s in scripts if "cex" in s["name"])))
    inp = os.path.join(ctx.work, "cache-scripts.ndjson")
    write_scripts(inp, scripts)
    # 3. real code: replay + seeded directed floods, recorded as a trace
    trace = run_harness(ctx, "./internal/chain/beacon", "TestVerifCache", "cache.ndjson", env={"VERIF_IN": inp})
    # 4. code -> spec: TLC validates the recorded trace, monitors evaluated on observed states
    ok, alarms, res = ctx.validate_trace("Trace_PartialCache", "Trace_PartialCache.cfg", trace, timeout=1500)
    nscen = count_lines(trace, "Reset")
    if ok:
        ctx.traces += nscen
    ctx.sample({"stage": "partialCache", "trace_head": sample_lines(trace, 3)})
    drift = 0
    for a in alarms:
        if a["mon"] in monitors:
            ctx.alarm({"stage": "cache", "mon": a["mon"], "scenario": scen_class(a["scenario"]), "detail": a["detail"]},
                      "partialCache: monitor %s failed at trace line %s (%s, scenario %s)" % (a["mon"], a["line"], a["detail"], a["scenario"]))
        elif a["mon"] in ("Conformance", "ConstDrift"):
            drift += 1
    if drift:
        ctx.inconclusive.append("partialCache: %d conformance differences between cache.go and PartialCache.tla (model drift), first: %s"
                                % (drift, [a for a in alarms if a["mon"] in ("Conformance", "ConstDrift")][0]))
    return ok
