"""Stage: design-level exploration of spec/Beacon.tla with TLC and conversion of TLC behaviours
(counterexamples, simulation walks) into replay scripts for the real-network harness."""
import json, os
import core
from stages import beaconnet


def design(ctx, configs):
    """configs: list of (cfg, kwargs). All are expected to hold."""
    for cfg, kw in configs:
        kw = dict(kw)
        ctx.model_check(kw.pop("module", "MC_Beacon"), cfg, **kw)


def early_cex(ctx):
    """C04 on the design: TLC searches a behaviour in which an honest node signs a round before its
    time.  A counterexample is only a MODEL counterexample; it is returned as a gated replay script."""
    r = ctx.model_check("MC_Beacon", "MC_Beacon_early.cfg", expect_ok=False, timeout=600,
                        extra=["-dumpTrace", "json", "cex.json"])
    p = os.path.join(r.workdir, "cex.json")
    if r.violated and os.path.exists(p):
        ctx.notes.append("MC_Beacon_early: TLC reports NoEarlyPartial violated on the design at depth %d; replayed on the real handlers (gated)" % r.depth)
        return [beaconnet.cex_to_script(p, "tlc-cex-early", True)]
    if r.finished and not r.violated:
        ctx.notes.append("MC_Beacon_early: NoEarlyPartial holds on the design (no counterexample)")
    elif not r.violated:
        ctx.inconclusive.append("MC_Beacon_early did not finish: %s" % (r.error or "timeout"))
    return []


def sim_walks(ctx, num, depth=80):
    r = ctx.model_check("Sim_Beacon", "Sim_Beacon.cfg", workers=1, simulate="num=%d" % num, depth=depth + 10,
                        seed=ctx.seed, timeout=600)
    scripts = []
    for i, (tag, obj) in enumerate(core.parse_vp_prints(r.prints)):
        if not obj:
            continue
        acts, exp, clean = [], [], True
        for st in obj:
            a = dict(st["act"]); a["sync"] = False
            acts.append(a)
            if st.get("syncing"):
                clean = False
            exp.append(list(st["heads"]) if clean else None)
        scripts.append(beaconnet.behaviour_to_script(("tlc-cexwalk-%d" if tag == "CEX" else "tlc-walk-%d") % i, acts, expect=exp))
    ctx.notes.append("Sim_Beacon: %d TLC walks converted to gated replay scripts" % len(scripts))
    return scripts
