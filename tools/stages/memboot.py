"""Stage: BeaconProcess.storeCurrentFromPeerNetwork (in-memory store bootstrap from peers) <-> spec/MemBoot.tla
(C01: the one beacon a memdb node starts from verifies for its round, whatever the peers answer)."""
from stages.common import *

MON_C01 = {"StoredUnverifiable"}


def run(ctx, monitors=MON_C01):
    ctx.model_check("MemBoot", "MC_MemBoot.cfg", timeout=300)
    trace = run_harness(ctx, "./internal/core", "TestVerifMemBoot", "memboot.ndjson", tags="verif,conn_insecure")
    ok, alarms, res = ctx.validate_trace("Trace_MemBoot", "Trace_MemBoot.cfg", trace, name="trace-memboot")
    if ok:
        ctx.traces += 1
    ctx.sample({"stage": "memboot", "cases": count_lines(trace), "trace_head": sample_lines(trace, 1, 300)})
    drift = [a for a in alarms if a["mon"] == "Conformance"]
    for a in alarms:
        if a["mon"] in monitors:
            ctx.alarm({"stage": "memboot", "mon": a["mon"], "detail": a["detail"]},
                      "memdb bootstrap stored a peer's beacon that does not verify (%s, scheme %s, trace line %s)" % (a["detail"], a["scenario"], a["line"]))
    if drift and not [a for a in alarms if a["mon"] in monitors]:
        ctx.inconclusive.append("storeCurrentFromPeerNetwork: %d outcomes differ from MemBoot.tla (model drift), first: %s" % (len(drift), drift[0]))
    return ok
