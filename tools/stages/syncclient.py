"""Stage: chain synchronisation client (sync_manager.go Run/Sync/tryNode/ReSync/Check/Correct,
StartFollowChain) <-> spec/SyncClient.tla.  Serves C10.

1. design level: exhaustive bounded TLC configs (safety per mode, writers racing, liveness
   `Converges` under fairness without a state constraint).  Configs on which the design as
   coded is expected to break a monitor are run with expect_ok=False: their counterexample is
   turned into a replay scenario; only what the real code then does is judged.
2. spec -> code: TLC simulation draws scenarios (mode, scheme, heights, 3 peer behaviours,
   corruptions, environment schedule) that the Go harnesses replay on the real SyncManager
   (internal/chain/beacon) and the real StartFollowChain (internal/core).
3. code -> spec: TLC validates both recorded traces with Trace_SyncClient.tla; the monitors of
   SyncClient.tla are evaluated there on the observed values.
"""
import json, os, re
from concurrent.futures import ThreadPoolExecutor
import core
from stages.common import *

MON_C10 = {"OnlyVerifiedInOrder", "CheckExact", "RepairExact", "Converges", "RepairLosesRound", "WritesAboveHead"}
MON_REPAIR_ABORT = {"RepairLosesRound", "WritesAboveHead"}
# NothingFromLiars ("nothing is stored from a stream after it delivered a lie") is the anchor mechanism, not the
# statement: it can fire while every stored beacon verified and was in chain order, so it is reported as a note.
MON_NOTE = {"NothingFromLiars"}

UNCHAINED = ["pedersen-bls-unchained", "bls-unchained-on-g1", "bls-unchained-g1-rfc9380", "bls-bn254-unchained-on-g1"]


def _tla_to_json(txt):
    """TLC's printed value of a record/tuple/set of strings, ints, booleans -> python."""
    t = txt
    t = re.sub(r"\(([^()]*:>[^()]*)\)", "null", t)         # functions (store0): not needed
    t = t.replace("<<", "[").replace(">>", "]").replace("{", "[").replace("}", "]")
    t = re.sub(r"\bTRUE\b", "true", t)
    t = re.sub(r"\bFALSE\b", "false", t)
    t = re.sub(r"(\w+)\s*\|->", r'"\1":', t)
    # the outermost record brackets
    t = t.strip()
    if t.startswith("[") and '":' in t.split(",")[0]:
        t = "{" + t[1:-1] + "}"
    return json.loads(t)


def cfg_of_counterexample(out):
    """cfg of the first state of a TLC error trace."""
    m = re.search(r"State 1: <Initial predicate>(.*?)\n\s*\nState 2:", out, re.S)
    if not m:
        return None
    blk = m.group(1)
    m2 = re.search(r"/\\ cfg = (\[.*?\])\n/\\ ", blk + "\n/\\ ", re.S)
    if not m2:
        return None
    try:
        return _tla_to_json(m2.group(1))
    except Exception:
        return None


def scenario_from_cfg(name, c, env=None):
    return {"name": name, "mode": c["mode"], "chained": bool(c["chained"]), "start": c["start"], "target": c["target"],
            "peers": [{"first": p[0], "later": p[1], "k": p[2], "head": p[3]} for p in c["peers"]],
            "corrupt": [[x[0], x[1]] for x in (c.get("corrupt") or [])],
            "env": [{"request": "req", "aggput": "agg", "tick": "tick"}[e] for e in (env or [])]}


def mc_parallel(ctx, jobs, par=3):
    """Run several exhaustive configs concurrently (each in its own scratch dir); bookkeeping as Ctx.model_check."""
    prepared = []
    for j in jobs:
        d = ctx.sub(j["cfg"].replace(".cfg", ""))
        prepared.append((j, d))

    def one(item):
        j, d = item
        return core.run_tlc(d, j.get("module", "MC_SyncClient"), j["cfg"], workers=j.get("workers", 4),
                            timeout=j.get("timeout", 600), coverage=j.get("coverage", False))

    with ThreadPoolExecutor(max_workers=par) as ex:
        results = list(ex.map(one, prepared))
    out = {}
    for (j, d), r in zip(prepared, results):
        expect_ok = j.get("expect_ok", True)
        m = re.search(r"Error: Temporal property (\S+) was violated", r.out)
        if m and not r.violated:
            r.violated, r.error = m.group(1), None
        ctx.states += r.distinct
        ctx.transitions += r.generated
        rec = {"module": j.get("module", "MC_SyncClient"), "cfg": j["cfg"], "distinct": r.distinct, "generated": r.generated,
               "depth": r.depth, "wall_s": round(r.wall, 1), "finished": r.finished, "violated": r.violated, "error": r.error,
               "expected": "holds" if expect_ok else "design as coded breaks a monitor (replayed on the real code)"}
        if j.get("coverage"):
            rec["actions_never_taken"] = sorted(set(r.coverage_zero))
        ctx.tlc_runs.append(rec)
        ctx.log("TLC %s: %d distinct / %d generated, depth %d, %.1fs%s%s" % (
            j["cfg"], r.distinct, r.generated, r.depth, r.wall,
            " VIOLATED " + r.violated if r.violated else "", " ERROR " + str(r.error) if r.error else ""))
        if r.timeout:
            ctx.exhaustive = False
            ctx.inconclusive.append("TLC timeout on %s" % j["cfg"])
        elif r.error:
            ctx.inconclusive.append("TLC error on %s: %s\n%s" % (j["cfg"], r.error, r.out[-1500:]))
        elif r.violated and expect_ok:
            ctx.inconclusive.append("model counterexample on %s (%s) - not a verdict until reproduced on real code\n%s"
                                    % (j["cfg"], r.violated, r.out[-3000:]))
        elif expect_ok and not r.finished:
            ctx.exhaustive = False
        if not expect_ok:
            ctx.notes.append("%s: %s" % (j["cfg"], ("design counterexample for %s (converted to a replay scenario)" % r.violated)
                                         if r.violated else "no counterexample (the design now keeps the monitor)"))
        out[j["cfg"]] = r
    return out


def run(ctx, monitors):
    q = ctx.quick
    # ---------------------------------------------------------------- 1. design level
    jobs = [
        {"cfg": "MC_SyncClient_run.cfg"},
        {"cfg": "MC_SyncClient_follow_chained.cfg"},
        {"cfg": "MC_SyncClient_follow_unchained.cfg"},
        {"cfg": "MC_SyncClient_repair.cfg"},
        {"cfg": "MC_SyncClient_repair_interrupt.cfg"},
        {"cfg": "MC_SyncClient_run_live.cfg"},
    ]
    if not q:
        jobs += [
            {"cfg": "MC_SyncClient_race.cfg"},
            # the design as coded still breaks Converges / CheckExact here (F30, F31, F33)
            {"cfg": "MC_SyncClient_follow_live.cfg", "expect_ok": False},
            {"cfg": "MC_SyncClient_repair_live.cfg", "expect_ok": False},
            {"cfg": "MC_SyncClient_repair_abort.cfg", "expect_ok": False},
            # sensitivity: PinsOperatorHash = FALSE (the follower trusts the hash field of a peer's chain-info packet);
            # TLC's counterexample (a LyingInfo peer gets its key pinned) is replayed on the real StartFollowChain
            {"cfg": "MC_SyncClient_follow_peerhash.cfg", "expect_ok": False},
            # sensitivity: ResyncDeletesFirst = TRUE (delete, then write): an interrupted repair loses a round
            {"cfg": "MC_SyncClient_repair_delput.cfg", "expect_ok": False},
            # sensitivity: CheckZeroIsClock = TRUE (upTo = 0 read as the clock's round, not clamped to the head)
            {"cfg": "MC_SyncClient_repair_zeroclock.cfg", "expect_ok": False},
            {"cfg": "MC_SyncClient_run_big.cfg", "timeout": 1500, "workers": 8},
            {"cfg": "MC_SyncClient_race_big.cfg", "timeout": 1500, "workers": 8},
            {"cfg": "MC_SyncClient_follow_chained_big.cfg", "timeout": 900},
            {"cfg": "MC_SyncClient_follow_unchained_big.cfg", "timeout": 900},
            {"cfg": "MC_SyncClient_repair_big.cfg", "timeout": 900},
            {"cfg": "MC_SyncClient_run_live_big.cfg", "timeout": 1500},
            {"cfg": "MC_SyncClient_follow_live_nostall.cfg", "timeout": 900},
            {"cfg": "MC_SyncClient_repair_live_nostall.cfg", "timeout": 900},
        ]
    if os.environ.get("VERIF_C10_FAST"):      # development aid for the mutation self-tests: real-code part only
        jobs = []
        ctx.exhaustive = False
        ctx.notes.append("VERIF_C10_FAST set: exhaustive design configs skipped")
    res = mc_parallel(ctx, jobs, par=3 if core.NCPU >= 12 else 2)
    scenarios = []
    for j in jobs:
        if j.get("expect_ok", True):
            continue
        r = res[j["cfg"]]
        if r.violated:
            c = cfg_of_counterexample(r.out)
            if c:
                scenarios.append(scenario_from_cfg("tlc-cex-" + j["cfg"].replace("MC_SyncClient_", "").replace(".cfg", ""), c))
            else:
                ctx.notes.append("could not extract the scenario of the counterexample of %s" % j["cfg"])
    ncex = len(scenarios)

    # ---------------------------------------------------------------- 2. spec -> code
    n = 40 if q else 400
    sim = ctx.model_check("Sim_SyncClient", "Sim_SyncClient.cfg", workers=1, simulate="num=%d" % n, depth=300,
                          seed=ctx.seed, timeout=600)
    k = 0
    for tag, obj in core.parse_vp_prints(sim.prints):
        if tag == "SCN" and obj:
            s = scenario_from_cfg("tlc-walk-%d" % k, obj, obj.get("env"))
            if not q and not s["chained"]:
                s["scheme"] = UNCHAINED[k % len(UNCHAINED)]
            scenarios.append(s)
            k += 1
    ctx.notes.append("scenarios from TLC: %d design counterexamples + %d simulation walks (plus the harness' directed ones)" % (ncex, k))
    if k == 0:
        ctx.inconclusive.append("TLC simulation produced no scenario\n" + sim.out[-1500:])
    inp = os.path.join(ctx.work, "syncclient-scenarios.ndjson")
    write_scripts(inp, scenarios)

    # ---------------------------------------------------------------- 3./4. real code, both harnesses
    env = {"VERIF_IN": inp, "GODEBUG": "randseednop=0"}
    ok_all = True
    for pkg, test, out in (("./internal/chain/beacon", "TestVerifSyncClient", "syncclient.ndjson"),
                           ("./internal/core", "TestVerifFollow", "follow.ndjson")):
        trace = run_harness(ctx, pkg, test, out, env=env, timeout=900)
        ok, alarms, r = ctx.validate_trace("Trace_SyncClient", "Trace_SyncClient.cfg", trace, name="trace-" + test, timeout=900)
        nscen = count_lines(trace, "Reset")
        if ok:
            ctx.traces += nscen
        ok_all = ok_all and ok
        ctx.sample({"stage": "syncclient", "harness": test, "scenarios": nscen, "trace_head": sample_lines(trace, 3, 300)})
        drift = [a for a in alarms if a["mon"] == "Conformance"]
        slow = [a for a in alarms if a["mon"] == "Inconclusive"]
        for a in alarms:
            if a["mon"] in monitors:
                sig = {"stage": "syncclient", "mon": a["mon"], "mode": a["mode"], "chained": a["chained"], "detail": a["detail"]}
                ctx.alarm(sig, "%s (%s): monitor %s failed at trace line %s of %s: %s [scenario %s, %s]" % (
                    test, a["mode"], a["mon"], a["line"], out, a["detail"], a["scenario"],
                    "chained" if a["chained"] else "unchained"))
        lies = [a for a in alarms if a["mon"] in MON_NOTE]
        if lies:
            ctx.notes.append("%s: %d NothingFromLiars observation(s) (a stream was used after it delivered a lie; not a verdict), first: %s/%s in %s"
                             % (test, len(lies), lies[0]["mode"], lies[0]["detail"], lies[0]["scenario"]))
        for a in alarms:
            if a["mon"] == "Crash":
                ctx.notes.append("%s: the real code panicked in scenario %s (%s); no honest peer was ahead there, so C10 says "
                                 "nothing about it (relevant to C14)" % (test, a["scenario"], a["detail"][:200]))
        if drift:
            ctx.inconclusive.append("%s: %d conformance differences between the code and SyncClient.tla (model drift), first: %s"
                                    % (test, len(drift), drift[0]))
        if slow:
            ctx.inconclusive.append("%s: %d scenario(s) did not become quiescent within the real-time cap: %s" % (test, len(slow), slow[0]))
    return ok_all


def _judge(ctx, test, out, alarms, monitors):
    for a in alarms:
        if a["mon"] in monitors:
            sig = {"stage": "syncclient", "mon": a["mon"], "mode": a["mode"], "chained": a["chained"], "detail": a["detail"]}
            ctx.alarm(sig, "%s (%s): monitor %s failed at trace line %s of %s: %s [scenario %s, %s]" % (
                test, a["mode"], a["mon"], a["line"], out, a["detail"], a["scenario"],
                "chained" if a["chained"] else "unchained"))
    drift = [a for a in alarms if a["mon"] == "Conformance"]
    slow = [a for a in alarms if a["mon"] == "Inconclusive"]
    if drift:
        ctx.inconclusive.append("%s: %d conformance differences between the code and SyncClient.tla (model drift), first: %s"
                                % (test, len(drift), drift[0]))
    if slow:
        ctx.inconclusive.append("%s: %d scenario(s) did not become quiescent within the real-time cap: %s" % (test, len(slow), slow[0]))


def run_repair_abort(ctx, monitors=MON_REPAIR_ABORT):
    """Light entry point (used by C02 as well): only the interrupted-correction scenarios - the context of a chain
    repair is cancelled between two store operations / a store write fails, on trimmed bolt, untrimmed bolt and memdb,
    chained and unchained - on the real SyncManager, judged by RepairLosesRound in Trace_SyncClient.tla."""
    out = "repair-abort.ndjson"
    trace = run_harness(ctx, "./internal/chain/beacon", "TestVerifSyncClient", out,
                        env={"VERIF_ONLY": "repair-abort", "GODEBUG": "randseednop=0"}, timeout=600)
    ok, alarms, r = ctx.validate_trace("Trace_SyncClient", "Trace_SyncClient.cfg", trace, name="trace-repair-abort", timeout=600)
    if ok:
        ctx.traces += count_lines(trace, "Reset")
    ctx.sample({"stage": "syncclient/repair-abort", "scenarios": count_lines(trace, "Reset"), "trace_head": sample_lines(trace, 2, 300)})
    _judge(ctx, "TestVerifSyncClient[repair-abort]", out, alarms, monitors)
    ctx.assumptions.append("an interrupted chain repair = context cancelled at sync.beforePut or right after any store operation "
                           "of the correction, or one store write failing; bolt (trimmed, untrimmed) and memdb back-ends")
    return ok


def run_repair(ctx, monitors):
    """Light entry point (used by C01): the directed chain-repair scenarios only (honest peers, lying peers - bad
    signatures, foreign beacon ids, early closes -, interrupted corrections) on the real SyncManager; `monitors` decides
    what is judged (C01: OnlyVerifiedInOrder - whatever a repair writes verifies for its round)."""
    out = "repair.ndjson"
    trace = run_harness(ctx, "./internal/chain/beacon", "TestVerifSyncClient", out,
                        env={"VERIF_ONLY": "repair", "GODEBUG": "randseednop=0"}, timeout=600)
    ok, alarms, r = ctx.validate_trace("Trace_SyncClient", "Trace_SyncClient.cfg", trace, name="trace-repair", timeout=600)
    if ok:
        ctx.traces += count_lines(trace, "Reset")
    ctx.sample({"stage": "syncclient/repair", "scenarios": count_lines(trace, "Reset"), "trace_head": sample_lines(trace, 2, 300)})
    _judge(ctx, "TestVerifSyncClient[repair]", out, alarms, monitors)
    return ok
