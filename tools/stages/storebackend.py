"""Stage: chain storage back-ends (boltdb untrimmed / trimmed unchained / trimmed chained, memdb ring)
<-> spec/StoreBackend.tla.  Serves C18.

  1. design level: TLC explores the complete graph of the transcribed back-ends against the reference
     sorted map, per back-end (exhaustive, small alphabets);
  2. spec -> code: the path to the first call of every class of monitor failure of the transcribed
     code (CEX, model counterexamples), a sampled state cover of the complete graph (COV) and random
     walks (BEH), all produced by TLC, are replayed on the REAL stores, together with the harness'
     seeded long random sequences;
  3. code -> spec: the recorded calls are validated by Trace_StoreBackend.tla; its monitors, evaluated
     by TLC on the observed results, are the only source of a verdict.
"""
import os
import core
from stages.common import *

MONITORS = {"RefinesSortedMap", "LabelMatchesData", "AscendingIteration", "SeekStoredReturnsIt",
            "PrevIsPredecessorSig", "RingForgetsOnlyOldest"}
MOD = "Sim_StoreBackend"          # = StoreBackend + the printing properties (CEX / COV / BEH)
W = int(os.environ.get("VERIF_TLC_WORKERS", "0")) or None


def _script(name, hist, fast=False):
    """TLC history <<[op:init,b,k], [op,round,v]...>> -> harness script."""
    if not hist or hist[0].get("op") != "init":
        return None
    steps = [{"op": s["op"], "round": s.get("round", 0), "v": s.get("v", 0)}
             for s in hist[1:] if s.get("op") not in ("init", "end")]
    return {"name": name, "backend": hist[0]["b"], "k": hist[0]["k"], "fast": fast, "steps": steps}


def _chain(scripts, chunk):
    """Concatenate many short TLC scripts of one back-end into few scenarios on ONE real store: after each
    script an open cursor is closed and every round it put is deleted again (recorded calls like all
    others, so the trace spec follows them), which brings the model back to its initial state."""
    out, groups = [], {}
    for s in scripts:
        groups.setdefault((s["backend"], s["k"]), []).append(s)
    for (be, k), lst in sorted(groups.items()):
        for c in range(0, len(lst), chunk):
            steps = []
            for s in lst[c:c + chunk]:
                steps += s["steps"]
                opened = False
                for st in s["steps"]:
                    if st["op"] == "open":
                        opened = True
                    elif st["op"] == "close":
                        opened = False
                if opened:
                    steps.append({"op": "close", "round": 0, "v": 0})
                for r in sorted({st["round"] for st in s["steps"] if st["op"] == "put"}):
                    steps.append({"op": "del", "round": r, "v": 0})
            out.append({"name": "%s-chain-%s-%d" % (lst[0]["name"].rsplit("-", 1)[0], be, c // chunk),
                        "backend": be, "k": k, "fast": True, "steps": steps})
    return out


def run(ctx, monitors=MONITORS):
    q = ctx.quick
    scripts = []

    # ---- 1. design level, exhaustive (complete state graphs), per back-end family
    #  *_all : the four back-ends, Put/Del only outside bolt cursors; also prints a seeded sample of the
    #          state cover (COV) and the path to the first call of every class of monitor failure (CEX)
    #  *_mut : the bolt kinds with Put/Del while a cursor (read transaction) is open
    #  ring2 : the ring with capacity 2
    # Act_ModuloNamed (in every config) says: outside the NAMED deviations the transcribed code satisfies
    # every monitor.  No deviation is named any more (F7 and F15 were repaired in the code and the
    # transcription follows the repaired code), so this is the strict statement.  Should the model break
    # a monitor, Act_Classify prints one path per class (CEX): a model counterexample, which becomes a
    # verdict only through the replay below.
    ncex, ncov, cov, classes = 0, 0, [], set()
    for c in (["all", "mut"] if q else ["all_big", "mut_big", "ring2"]):
        first = c.startswith("all")
        r = ctx.model_check(MOD, "MC_StoreBackend_%s.cfg" % c, workers=(1 if (first and q) else W), seed=ctx.seed,
                            timeout=600 if q else 2400, coverage=(not q and c == "ring2"))
        for i, (tag, obj) in enumerate(core.parse_vp_prints(r.prints)):
            if tag == "COV" and obj:
                s = _script("tlc-cover-%d" % i, obj, fast=True)
                if s and s["steps"]:
                    cov.append(s)
                    ncov += 1
            elif tag == "CEX" and obj:
                s = _script("tlc-cex-%s-%d" % (c, ncex), obj.get("script"))
                key = (s and s["backend"], obj.get("shape"), tuple(sorted(obj.get("failed", []))))
                if s and key not in classes:
                    classes.add(key)
                    scripts.append(s)
                    ncex += 1
                    ctx.notes.append("model counterexample (%s, %s): monitors %s break at a call of shape '%s' after %d calls"
                                     % (c, s["backend"], ",".join(key[2]), key[1], len(s["steps"])))
    scripts += _chain(cov, 60)
    # ---- 2. random walks of the design model (tlc -simulate, seeded)
    nw, walks = 0, []
    for cfg, num, depth in (("Sim_StoreBackend.cfg", 600 if q else 8000, 30),
                            ("Sim_StoreBackend_ring10.cfg", 150 if q else 2000, 60)):
        sim = ctx.model_check(MOD, cfg, workers=1, simulate="num=%d" % num, depth=depth + 3,
                              seed=ctx.seed, timeout=900)
        for i, (tag, obj) in enumerate(core.parse_vp_prints(sim.prints)):
            if tag == "BEH" and obj:
                s = _script("tlc-walk-%d" % nw, obj)
                if s:
                    # every 8th walk runs alone on a fresh store (bolt: with fsync), the others are chained
                    (scripts if nw % 8 == 0 else walks).append(s)
                    nw += 1
    scripts += _chain(walks, 25)
    ctx.notes.append("TLC behaviours replayed on the real stores: %d model counterexamples, %d state-cover paths, %d random walks"
                     % (ncex, ncov, nw))
    if nw == 0 or ncov == 0:
        ctx.inconclusive.append("TLC produced no behaviours to replay (walks=%d cover=%d)" % (nw, ncov))
    inp = os.path.join(ctx.work, "backend-scripts.ndjson")
    write_scripts(inp, scripts)

    # ---- 3. real code: replay + seeded long random sequences, recorded as traces
    t1 = run_harness(ctx, "./internal/chain/boltdb", "TestVerifBackend", "backend-bolt.ndjson", env={"VERIF_IN": inp},
                     timeout=1500)
    t2 = run_harness(ctx, "./internal/chain/memdb", "TestVerifBackend", "backend-memdb.ndjson", env={"VERIF_IN": inp},
                     timeout=1500)
    trace = os.path.join(ctx.work, "backend.ndjson")
    with open(trace, "w") as out:
        for t in (t1, t2):
            with open(t) as fh:
                for line in fh:
                    out.write(line)
    per = {}
    with open(trace) as fh:
        for line in fh:
            if '"ev":"Reset"' in line:
                for be in ("bolt", "trimmedc", "trimmed", "memdb"):
                    if '"backend":"%s"' % be in line:
                        per[be] = per.get(be, 0) + 1
                        break
    ctx.extra["scenarios_per_backend"] = per
    ctx.extra["tlc_behaviours_replayed"] = {"counterexamples": ncex, "state_cover_paths": ncov, "random_walks": nw}
    ctx.extra["calls_on_real_stores"] = count_lines(trace, "Op")
    for be in ("bolt", "trimmed", "trimmedc", "memdb"):
        if not per.get(be):
            ctx.inconclusive.append("no scenario was run on back-end %s" % be)

    # ---- 4. code -> spec
    ok, alarms, res = ctx.validate_trace("Trace_StoreBackend", "Trace_StoreBackend.cfg", trace, timeout=3000)
    if ok:
        ctx.traces += count_lines(trace, "Reset")
    ctx.sample({"stage": "storebackend", "trace_head": sample_lines(trace, 4)})
    drift = [a for a in alarms if a["mon"] == "Conformance"]
    for a in alarms:
        if a["mon"] in monitors:
            sig = {"stage": "storebackend", "mon": a["mon"], "backend": a["backend"], "op": a["op"],
                   "shape": a["shape"], "detail": a["detail"]}
            ctx.alarm(sig, "%s store: monitor %s failed at call %s (%s%s), %d time(s); first at trace line %s, scenario %s"
                      % (a["backend"], a["mon"], a["op"], a["shape"], (", " + a["detail"]) if a["detail"] else "",
                         a["count"], a["line"], a["scenario"]))
            ctx.sample({"alarm": a, "event": _line(trace, a["line"])})
        elif a["mon"] != "Conformance":
            ctx.inconclusive.append("unknown alarm from the trace spec: %s" % a)
    if drift:
        ctx.inconclusive.append("storebackend: %d kinds of conformance differences between the real stores and "
                                "StoreBackend.tla's transcription (model drift), first: %s / event: %s"
                                % (len(drift), drift[0], _line(trace, drift[0]["line"])))
    return ok


def _line(path, n):
    try:
        with open(path) as fh:
            for i, line in enumerate(fh, 1):
                if i == n:
                    return line.strip()[:600]
    except Exception:
        pass
    return ""
