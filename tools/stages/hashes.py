"""Stage: chain hash / group hash (common/chain/info.go, common/key/group.go) <-> spec/Hashes.tla (C17)."""
import json, os
import core
from stages.common import *

MON_C17 = {"Mon_SameParamsSameHash", "Mon_DiffParamsDiffHash", "Mon_TamperRejected", "Mon_DecodedHashIsDeclared"}


def run(ctx, monitors):
    q = ctx.quick
    W = int(os.environ.get("VERIF_TLC_WORKERS", "0")) or None
    # ---- 1. design level: the complete graph of single-step changes over small value sets
    if os.environ.get("VERIF_DEV_SKIP_MC"):      # development only (mutation loops)
        ctx.notes.append("design-level TLC runs skipped (VERIF_DEV_SKIP_MC)")
        ctx.exhaustive = False
    else:
        ctx.model_check("Hashes", "MC_Hashes_chain.cfg", workers=W, timeout=300, coverage=not q)
        ctx.model_check("Hashes", "MC_Hashes_group.cfg", workers=W, timeout=900)
        ctx.model_check("Hashes", "MC_Hashes_chainseq.cfg", workers=W, timeout=300)
        ctx.model_check("Hashes", "MC_Hashes_groupseq.cfg" if q else "MC_Hashes_groupseq_big.cfg", workers=W, timeout=1500)
        if not q:
            ctx.model_check("Hashes", "MC_Hashes_group_big.cfg", workers=W, timeout=2400)
    # ---- 2. spec -> code: TLC walks per family + the complete chain-info catalogue
    scripts = []
    # chainseq / groupseq: ONE live value per walk (assign in place, decode into it, copy, re-hash)
    nwalk = {"chain": 6 if q else 40, "group": 14 if q else 120, "chainseq": 8 if q else 60, "groupseq": 8 if q else 60}
    for fam in ("chain", "group", "chainseq", "groupseq"):
        sim = ctx.model_check("Sim_Hashes", "Sim_Hashes_%s.cfg" % fam, workers=1, simulate="num=%d" % nwalk[fam],
                              depth=42, seed=ctx.seed, timeout=900)
        k = 0
        for tag, obj in core.parse_vp_prints(sim.prints):
            if tag == "BEH" and obj:
                obj["name"], obj["class"] = "walk-%s-%d" % (fam, k), "walk-" + fam
                scripts.append(obj)
                k += 1
        if k < nwalk[fam]:
            ctx.inconclusive.append("Sim_Hashes_%s produced %d of %d walks:\n%s" % (fam, k, nwalk[fam], sim.out[-1200:]))
    cat = ctx.model_check("Sim_Hashes", "Sim_Hashes_catalogue.cfg", workers=1, timeout=300)
    cf = os.path.join(cat.workdir, "hashes_catalogue.json")
    if cat.ok() and os.path.exists(cf):
        obj = json.load(open(cf))
        obj["name"], obj["class"] = "catalogue-chain", "catalogue"
        scripts.append(obj)
    else:
        ctx.inconclusive.append("Sim_Hashes_catalogue produced no catalogue:\n" + cat.out[-1200:])
    nsteps = sum(len(s["steps"]) for s in scripts)
    ctx.notes.append("TLC behaviours replayed on the real code: %d walks + the complete chain-info catalogue (%d values), %d hash computations per scheme"
                     % (len(scripts) - 1, len(scripts[-1]["steps"]) if scripts else 0, nsteps))
    inp = os.path.join(ctx.work, "hashes-scripts.ndjson")
    write_scripts(inp, scripts)
    # ---- 3. real code
    trace = run_harness(ctx, "./common/chain", "TestVerifHashes", "hashes.ndjson", env={"VERIF_IN": inp}, timeout=1500)
    # ---- 4. code -> spec
    ok, alarms, res = ctx.validate_trace("Trace_Hashes", "Trace_Hashes.cfg", trace, timeout=1500)
    nscen = count_lines(trace, "Reset")
    if ok:
        ctx.traces += nscen
    ctx.sample({"stage": "hashes", "trace_head": sample_lines(trace, 3)})
    ctx.extra["schemes"] = sorted({json.loads(l)["scheme"] for l in open(trace) if '"ev":"Reset"' in l})
    drift = []
    for a in alarms:
        if a["mon"] in monitors:
            if a["mon"] == "Mon_DecodedHashIsDeclared":
                sig = {"stage": "hashes", "mon": a["mon"], "decoder": "InfoFromProto" if a["how"][0] == "proto" else "Info.UnmarshalJSON"}
            elif a["mon"] == "Mon_TamperRejected":
                sig = {"stage": "hashes", "mon": a["mon"],
                       "decoder": "InfoFromProto" if a["how"][0] in ("proto", "hexjson") else "Info.UnmarshalJSON"}
            else:
                sig = {"stage": "hashes", "mon": a["mon"], "hash": a["hash"], "fields": ",".join(sorted(a["fields"])),
                       "how": "/".join(sorted(set(a["how"])))}
            ctx.alarm(sig, "%s hash: %s failed (scheme %s, %s, action %s): fields differing %s, computations compared %s"
                      % (a["hash"], a["mon"], a["scheme"], a["scenario"], a["action"], sorted(a["fields"]), a["how"]))
        else:
            drift.append(a)
    if drift:
        ctx.inconclusive.append("hashes: %d conformance differences (an encoding path failed on a valid value, or the harness and Hashes.tla disagree), first: %s"
                                % (len(drift), drift[0]))
    return ok
