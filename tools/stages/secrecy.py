"""Stage: secrecy (C15) <-> spec/Secrecy.tla.

Design level: TLC explores the emitter/file model exhaustively (no secret atom in any
emission, secret-bearing files owner-only at every system call of a save).  Spec -> code:
TLC simulation walks of the file machine are replayed on the real key store / DKG store /
chain store; the spec's response inventory is the call plan of the daemon harness.
Code -> spec: a real first DKG and a real resharing among real dkg.Process instances and a
real DrandDaemon producing beacons are recorded (every packet, response, stream item, HTTP
body, log line, stdout line, file); the oracle is a byte scan for every long-term private
scalar, every share and every decrypted deal share; TLC (Trace_Secrecy) evaluates the
monitors on the observations and reports which emitters of the inventory were exercised."""
import json, os, threading
import core
from stages.common import *

MONITORS = {"NoSecretEmitted", "OnlyPublicOrEncrypted", "SecretFileOwnerOnly"}
DRIFT = {"Conformance", "UnknownEmitter", "ScannerBlind", "StepFailed", "ScenarioAborted"}


def _design(ctx, q, w):
    # DkgDbPerm follows the code (0600 + chmod of an existing file since the repair of F11): SecretFileOwnerOnly is an
    # invariant of the main config; a pre-existing group-readable dkg.db (PreModes 0640) is tightened before any write
    ctx.model_check("Secrecy", "MC_Secrecy.cfg", coverage=not q, workers=w)
    if not q:
        ctx.model_check("Secrecy", "MC_Secrecy_big.cfg", timeout=1500, workers=w)
        ctx.model_check("Secrecy", "MC_Secrecy_two.cfg", timeout=1500, workers=w)     # two nodes, echo of the other's bundles


def run(ctx, monitors=MONITORS):
    q = ctx.quick
    w = int(os.environ.get("VERIF_TLC_WORKERS", "0")) or None
    # 1. spec -> code: file walks + call plan
    n = 6 if q else 120
    sim = ctx.model_check("Sim_Secrecy", "Sim_Secrecy.cfg", workers=1, simulate="num=%d" % n, depth=400,
                          seed=ctx.seed, timeout=600)
    walks, plan = [], None
    for tag, obj in core.parse_vp_prints(sim.prints):
        if tag == "BEH" and obj:
            walks.append({"name": "tlc-walk-%d" % len(walks), "umask": obj["umask"], "steps": obj["steps"]})
        if tag == "PLAN" and obj:
            plan = obj
    if not walks or not plan:
        raise core.Inconclusive("Sim_Secrecy produced no walks / no plan:\n" + sim.out[-2000:])
    walks_in = os.path.join(ctx.work, "secrecy-walks.ndjson")
    write_scripts(walks_in, walks)
    plan_in = os.path.join(ctx.work, "secrecy-plan.ndjson")
    write_scripts(plan_in, [plan])
    ctx.notes.append("TLC walks of the file machine replayed on the real stores: %d; call plan: %d response emitters, %d error-reply emitters"
                     % (len(walks), len(plan["responses"]), len(plan.get("errors", []))))
    ctx.notes.append("damaged private files (fault family of Secrecy.tla): %d forms x %d files, every loader driven"
                     % (len(plan.get("damage_forms", [])), len(plan.get("damage_files", []))))

    # 2. design level in the background while Go compiles and runs
    err = []

    def bg():
        try:
            _design(ctx, q, w)
        except Exception as e:  # noqa
            err.append(e)
    th = threading.Thread(target=bg)
    th.start()

    # 3. real code
    traces = []
    try:
        t1 = run_harness(ctx, "./internal/dkg", "TestVerifSecrecyDKG", "secrecy-dkg.ndjson",
                         env={"VERIF_IN": walks_in}, timeout=1500)
        traces.append(t1)
        t2 = run_harness(ctx, "./internal/core", "TestVerifSecrecyDaemon", "secrecy-daemon.ndjson",
                         env={"VERIF_IN": plan_in}, timeout=1500, tags="verif,conn_insecure")
        traces.append(t2)
    finally:
        th.join()
    if err:
        raise err[0]
    trace = os.path.join(ctx.work, "secrecy.ndjson")
    with open(trace, "w") as out:
        for t in traces:
            with open(t) as fh:
                for line in fh:
                    out.write(line)

    # 4. code -> spec
    ok, alarms, res = ctx.validate_trace("Trace_Secrecy", "Trace_Secrecy.cfg", trace, timeout=1500)
    nscen = count_lines(trace, "Reset")
    if ok:
        ctx.traces += nscen
    done = None
    for tag, obj in core.parse_vp_prints(res.prints):
        if tag == "DONE":
            done = obj
    nem = count_lines(trace, "Emit")
    nfi = count_lines(trace, "File")
    ctx.sample({"stage": "secrecy", "emissions_scanned": nem, "file_observations": nfi, "scenarios": nscen})
    with open(trace) as fh:
        shown = 0
        for line in fh:
            if '"ev":"File"' in line and '"holds":true' in line and shown < 3:
                ctx.sample({"stage": "secrecy", "file": line.strip()[:400]})
                shown += 1
    if done:
        ctx.extra["inventory"] = {
            "emitters_in_spec": done.get("inventory"),
            "exercised": sorted(done.get("emitters", [])),
            "not_exercised": sorted(done.get("unexercised", [])),
            "peer_facing_not_exercised": sorted(done.get("peerfacing_unexercised", [])),
            "files_observed": sorted(done.get("files", [])),
            "refusal_paths_driven": sorted(done.get("refusals", [])),
        }
        ctx.notes.append("refusal paths driven (error replies scanned): %d" % len(done.get("refusals", [])))
        ctx.notes.append("inventory: %d of %d emitters exercised; not exercised: %s" % (
            len(done.get("emitters", [])), done.get("inventory", 0), ", ".join(sorted(done.get("unexercised", []))) or "-"))
    drift = []
    for a in alarms:
        if a["mon"] in monitors:
            det = a["detail"]
            # signature: monitor + emitter/file + encoding class of the first hit (never node ids or seeds)
            cls = det.split(":")[0] if a["mon"] != "SecretFileOwnerOnly" else det
            if a["mon"] == "SecretFileOwnerOnly":
                text = "file %s holds a private key / share and is %s" % (a["where"], det)
            else:
                text = "%s carries %s" % (a["where"], det)
            ctx.alarm({"stage": "secrecy", "mon": a["mon"], "where": a["where"], "detail": cls},
                      "secrecy: monitor %s failed at trace line %s: %s (scenario %s)" % (a["mon"], a["line"], text, a["scenario"]))
        elif a["mon"] in DRIFT:
            drift.append(a)
    if drift:
        ctx.inconclusive.append("secrecy: %d conformance problems (model drift / oracle / harness), first: %s" % (len(drift), drift[0]))
    return ok
