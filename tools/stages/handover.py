"""Stage: chainStore.NewValidPartial -> aggregator hand-over <-> spec/PartialHandover.tla (C12: the verified partials
a member can park in front of the partial cache while the aggregator is busy are bounded by the blocking send)."""
from stages.common import *

MON_C12 = {"HandoverUnbounded", "HandoverStuck"}


def run(ctx, monitors=MON_C12):
    ctx.model_check("PartialHandover", "MC_PartialHandover.cfg", timeout=120)
    trace = run_harness(ctx, "./internal/chain/beacon", "TestVerifHandover", "handover.ndjson")
    ok, alarms, res = ctx.validate_trace("Trace_PartialHandover", "Trace_PartialHandover.cfg", trace, name="trace-handover")
    if ok:
        ctx.traces += count_lines(trace, "Flood")
    ctx.sample({"stage": "handover", "floods": count_lines(trace, "Flood"), "trace_head": sample_lines(trace, 3, 200)})
    drift = [a for a in alarms if a["mon"] == "Conformance"]
    for a in alarms:
        if a["mon"] in monitors:
            ctx.alarm({"stage": "handover", "mon": a["mon"], "detail": a["detail"]},
                      "partial hand-over: monitor %s failed at trace line %s: %s" % (a["mon"], a["line"], a["detail"]))
    if drift and not [a for a in alarms if a["mon"] in monitors]:
        ctx.inconclusive.append("partial hand-over: %d differences vs PartialHandover.tla, first: %s" % (len(drift), drift[0]))
    return ok
