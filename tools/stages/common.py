"""Helpers shared by stages."""
import json, os, re
import core


def bin_for(ctx, pkg, tags="verif"):
    key = (pkg, tags)
    cache = ctx.__dict__.setdefault("_bins", {})
    if key not in cache:
        ctx.log("building test binary for %s (tags %s) from the current tree" % (pkg, tags))
        cache[key] = core.go_build_test(pkg, tags=tags)
    return cache[key]


def scen_class(name):
    """'random-12' -> 'random' (signatures must not depend on seeds)."""
    return re.sub(r"[-_]?\d+$", "", str(name))


def run_harness(ctx, pkg, test, outname, env=None, timeout=900, tags="verif"):
    """Run one overlay test of the real code; returns path of the ndjson trace it wrote."""
    b = bin_for(ctx, pkg, tags)
    out = os.path.join(ctx.work, outname)
    e = {"VERIF_OUT": out, "VERIF_SEED": str(ctx.seed), "VERIF_TIER": ctx.tier}
    e.update(env or {})
    rc, o, wall = core.run_test_bin(b, pkg, "^%s$" % test, env=e, timeout=timeout)
    ctx.log("harness %s %s: rc=%d %.1fs" % (pkg, test, rc, wall))
    if rc != 0 or not os.path.exists(out):
        raise core.Inconclusive("harness %s/%s failed (rc=%d):\n%s" % (pkg, test, rc, o[-3000:]))
    if "--- SKIP" in o:
        raise core.Inconclusive("harness %s/%s was skipped" % (pkg, test))
    return out


def count_lines(path, ev=None):
    n = 0
    with open(path) as fh:
        for line in fh:
            if ev is None or ('"ev":"%s"' % ev) in line:
                n += 1
    return n


def sample_lines(path, k=4, maxlen=400):
    out = []
    with open(path) as fh:
        for i, line in enumerate(fh):
            if i >= k:
                break
            out.append(line.strip()[:maxlen])
    return out


def write_scripts(path, scripts):
    with open(path, "w") as fh:
        for s in scripts:
            fh.write(json.dumps(s) + "\n")
