"""Stage: network of real beacon Handlers (in-memory network harness TestVerifNet)
<-> spec/Beacon.tla (design, exhaustive + simulation) and spec/Trace_Beacon.tla (monitors).

Serves C01, C02, C03, C04, C05, C07.  Scenario scripts come from two sources:
 * TLC: counterexamples / simulation walks of Beacon.tla converted step by step
   (Advance -> clock advance, TickRecv/TickSign -> gate at run.tick, Deliver -> delivery of
   one in-flight partial, CatchupFire -> gate at run.catchupFire, Stop/Restart);
 * seeded drivers below (fault scripts, adversarial partial streams, clock patterns,
   reshare shapes) - inputs only; all judging is done by TLC on the recorded trace.
"""
import json, os, random
import core
from stages.common import *

MON = {
    "C01": {"StoredUnverifiable", "ServedNotStored", "ScanUnverifiable"},
    "C02": {"GapOrOutOfOrder", "Rewrite", "BadLink", "Disagreement", "ScanGap", "ScanRewrite", "ScanOrder", "ScanLost"},
    "C03": {"BelowThreshold", "AcceptedInvalidPartial", "AcceptedNonMember", "AcceptedOwnIndex"},
    "C04": {"NoEarlyPartial", "AcceptedFuturePartial", "BeaconBeforeItsTime", "HeadBeyondClock", "TickRound"},
    "C05": {"NoProgress"},
    "C07": {"IdentityChanged", "AcceptedInvalidPartial", "WrongShareEpoch", "VaultEpoch", "NoProgress", "GapOrOutOfOrder", "Rewrite", "BadLink", "Disagreement",
            "StoredUnverifiable", "BelowThreshold"},
}
ALWAYS = {"HandlerDidNotReturn"}

SCHEMES = ["pedersen-bls-chained", "pedersen-bls-unchained", "bls-unchained-g1-rfc9380", "bls-unchained-on-g1", "bls-bn254-unchained-on-g1"]


def schemes_for(ctx, k=1):
    """default (chained) scheme plus k others chosen by seed in quick; all five in thorough."""
    if not ctx.quick:
        return list(SCHEMES)
    rng = random.Random(ctx.seed)
    return [SCHEMES[0]] + rng.sample(SCHEMES[1:], k)


ADV_KINDS = ["valid", "wrongKey", "wrongRound", "wrongPrev", "otherPrev", "truncated", "bitflip", "nonMember", "validNonMember", "replayOwn", "empty"]


# ----------------------------------------------------------------------------- seeded drivers

def _round_steps(t, order="fifo", label=None, live=False):
    s = [{"op": "advance", "node": -1, "to": t}, {"op": "deliverall", "order": order}]
    if label:
        s.append({"op": "quiesce", "label": ("live-" if live else "") + label})
    return s


def sc_happy(rng, n, t, rounds, backend="memdb", name=None):
    steps = [{"op": "startall"}]
    for r in range(rounds):
        steps += _round_steps(10 * r, rng.choice(["fifo", "random", "lifo"]), "r%d" % (r + 1), live=True)
    return {"name": name or "happy-%d-%d" % (n, t), "n": n, "t": t, "backend": backend, "steps": steps}


def sc_threshold(rng, n, t, k):
    """only k members contribute (the others are stopped before genesis)."""
    steps = [{"op": "startall"}]
    for i in range(k, n):
        steps.append({"op": "stop", "node": i})
    for r in range(3):
        steps += _round_steps(10 * r, "random", "k%d-r%d" % (k, r + 1), live=(k >= t))
    return {"name": "threshold-%d-%d-k%d" % (n, t, k), "n": n, "t": t, "steps": steps}


def sc_adversary(rng, n, t, quick):
    """n-t corrupted members (highest indices, stopped = silent as honest nodes) flood the others with every
    forgery kind for several rounds / claimed indices, while only t-1 honest members contribute to a round:
    nothing may be stored for that round; then the honest threshold is restored."""
    steps = [{"op": "startall"}]
    bad = list(range(t, n)) or []          # corrupted members (they stay silent as honest senders)
    # before genesis (clocks at -5): a fast-clocked / corrupted member already sends partials for rounds 1..3;
    # round 1 is the next round (acceptable), anything later is more than one round ahead of the clock
    for v in range(0, min(2, n)):
        for rnd in (1, 2, 3):
            steps.append({"op": "adv", "node": v, "kind": "valid", "as": (bad[0] if bad else (v + 1) % n), "round": rnd})
    # validly signed partials for rounds near 2^63 / 2^64 (signed arithmetic on the round must not let them through)
    for rnd in (2 ** 63 + 5, 2 ** 64 - 1, 2 ** 63 - 1, 2 ** 32 + 1):
        steps.append({"op": "adv", "node": 0, "kind": "valid", "as": (bad[0] if bad else 1 % n), "round": rnd})
    steps += _round_steps(0, "random", "r1", live=True)
    for i in bad:
        steps.append({"op": "stop", "node": i})
    if bad:
        steps.append({"op": "corrupt", "nodes": bad})   # they also answer sync requests with forged streams
    silenced = None
    if len(bad) < n - (t - 1):             # silence one more honest node so only t-1 honest partials exist
        silenced = t - 1
        steps.append({"op": "stop", "node": silenced})
    steps.append({"op": "advance", "node": -1, "to": 10})
    victims = [i for i in range(n) if i not in bad and i != silenced]
    kinds = ADV_KINDS if not quick else rng.sample(ADV_KINDS, 6)
    for v in victims:
        for kind in kinds:
            for claimed in ([bad[0]] if bad else []) + [v, (v + 1) % n, n + 3]:
                for rnd in (2, 3, 4, 9):
                    if quick and rng.random() < 0.55:
                        continue
                    steps.append({"op": "adv", "node": v, "kind": kind, "as": claimed, "round": rnd})
    steps.append({"op": "deliverall", "order": "random"})
    steps.append({"op": "quiesce", "label": "under-attack"})
    # duplicates of honest partials must not count twice
    for v in victims:
        steps.append({"op": "dup", "node": v})
    # the corrupted members now send VALID partials for the current round: with t-1 honest + 1 corrupted the
    # round may be produced (that is allowed: they are members), but never a future round
    if bad:
        for v in victims:
            steps.append({"op": "adv", "node": v, "kind": "valid", "as": bad[0], "round": 4})
            steps.append({"op": "adv", "node": v, "kind": "valid", "as": bad[0], "round": 3})
    steps.append({"op": "deliverall", "order": "random"})
    if silenced is not None:
        steps.append({"op": "start", "node": silenced, "mode": "catchup"})
    steps += _round_steps(20, "random", "r3", live=False)
    steps += _round_steps(30, "random", "r4", live=False)
    return {"name": "adversary-%d-%d" % (n, t), "n": n, "t": t, "steps": steps}


def sc_faults(rng, n, t, k):
    """random fault script (partition / stop / restart / drop / dup) followed by a healed period."""
    steps = [{"op": "startall"}]
    now = 0
    steps += _round_steps(now, "random", "r1", live=True)
    down = set()
    for _ in range(rng.randint(2, 5)):
        f = rng.choice(["partition", "stop", "drop", "stall", "restart"])
        if f == "partition":
            ids = list(range(n)); rng.shuffle(ids)
            cut = rng.randint(1, n - 1)
            steps.append({"op": "partition", "parts": [ids[:cut], ids[cut:]]})
        elif f == "stop" and len(down) < n - 1:
            i = rng.choice([x for x in range(n) if x not in down]); down.add(i)
            steps.append({"op": "stop", "node": i})
        elif f == "restart" and down:
            i = rng.choice(sorted(down)); down.discard(i)
            steps.append({"op": "start", "node": i, "mode": "catchup"})
        elif f == "drop":
            now += 10
            steps += [{"op": "advance", "node": -1, "to": now}, {"op": "dropall"}]
            continue
        elif f == "stall":
            now += 10 * rng.randint(2, 3)
        now += 10
        steps += _round_steps(now, "random", "fault")
    steps.append({"op": "heal"})
    for i in sorted(down):
        steps.append({"op": "start", "node": i, "mode": "catchup"})
    # healed period: clocks advance round by round, catch-up timers get their ticks in between
    for r in range(8):
        now += 10
        steps += [{"op": "advance", "node": -1, "to": now}, {"op": "deliverall", "order": "random"}]
        for c in range(2, 10, 2):
            steps += [{"op": "advance", "node": -1, "to": now + c}, {"op": "deliverall", "order": "random"}]
        if r >= 3:
            steps.append({"op": "quiesce", "label": "live-healed-%d" % r})
    return {"name": "faults-%d-%d-%d" % (n, t, k), "n": n, "t": t, "backend": rng.choice(["memdb", "trimmed", "bolt"]), "steps": steps}


def sc_long_partition(rng, n, t, k, mode):
    """one node is cut off for several rounds (longer than the partial-cache window), then the partition heals:
    the isolated node must catch up by sync and contribute again.  mode "blackhole": sync streams opened during
    the partition stay open and silent (half-open connections) instead of failing."""
    steps = [{"op": "startall"}]
    now = 0
    for r in range(3):
        steps += _round_steps(10 * r, "random", "r%d" % (r + 1), live=True)
    lone = rng.randrange(n)
    rest = [i for i in range(n) if i != lone]
    steps.append({"op": "partition", "parts": [[lone], rest], "mode": mode})
    now = 20
    for r in range(rng.randint(6, 8)):
        now += 10
        steps += _round_steps(now, "random", "cut")
    steps.append({"op": "heal"})
    for r in range(7):
        now += 10
        steps += [{"op": "advance", "node": -1, "to": now}, {"op": "deliverall", "order": "random"}]
        for c in range(2, 10, 2):
            steps += [{"op": "advance", "node": -1, "to": now + c}, {"op": "deliverall", "order": "random"}]
        if r >= 3:
            steps.append({"op": "quiesce", "label": "live-healed-%d" % r})
    return {"name": "longcut-%s-%d-%d-%d" % (mode or "drop", n, t, k), "n": n, "t": t, "steps": steps}


def sc_miss_one_round(rng, n, t, k):
    """one node misses the partials of exactly one round (its links are cut for that period) and then receives the
    threshold of partials of the FOLLOWING round while its sync of the missed round is still held back (gate at
    sync.beforePut): it can aggregate round r+2 but holds nothing of round r+1, which may only come by sync."""
    steps = [{"op": "startall"}]
    steps += _round_steps(0, "random", "r1", live=True) + _round_steps(10, "random", "r2", live=True)
    v = rng.randrange(n)
    rest = [i for i in range(n) if i != v]
    steps.append({"op": "partition", "parts": [[v], rest]})
    steps += _round_steps(20, "random", "cut-r3")
    steps.append({"op": "dropall"})
    steps.append({"op": "heal"})
    steps.append({"op": "gate", "point": "sync.beforePut", "node": v})
    steps += [{"op": "advance", "node": -1, "to": 30}, {"op": "deliverto", "order": "random", "node": v}]
    steps.append({"op": "waitgate", "point": "sync.beforePut", "node": v})
    steps.append({"op": "deliverall", "order": "random"})
    steps.append({"op": "opengate", "point": "sync.beforePut", "node": v})
    for r in (4, 5, 6):
        steps += _round_steps(10 * r, "random", "after-r%d" % (r + 1))
        steps += [{"op": "advance", "node": -1, "to": 10 * r + 4}, {"op": "deliverall", "order": "random"}]
    steps.append({"op": "quiesce", "label": "live-after-missed-round"})
    return {"name": "missone-%d-%d-%d" % (n, t, k), "n": n, "t": t, "steps": steps}


def sc_restart_midround(rng, n, t, k):
    """a node is restarted (Catchup) in the middle of round r with head r-1 and receives the partials of round r
    before its first tick: it aggregates round r itself; the catch-up periods that follow must not make it sign
    round r+1 before that round's time."""
    steps = [{"op": "startall"}]
    steps += _round_steps(0, "random", "r1", live=True) + _round_steps(10, "random", "r2", live=True)
    v = rng.randrange(n)
    rest = [i for i in range(n) if i != v]
    steps.append({"op": "stop", "node": v})
    steps += [{"op": "advance", "node": -1, "to": 20}]            # round 3: the others sign; v is down
    hold = rng.random() < 0.5
    if not hold:
        steps.append({"op": "deliverall", "order": "random"})
    steps += [{"op": "advance", "node": -1, "to": 22}]
    steps.append({"op": "start", "node": v, "mode": "catchup"})
    for i in rest[:t]:
        steps.append({"op": "adv", "node": v, "kind": "valid", "as": i, "round": 3})
    steps.append({"op": "deliverall", "order": "random"})
    for c in (24, 26, 28):
        steps += [{"op": "advance", "node": -1, "to": c}, {"op": "deliverall", "order": "random"}]
    for r in (3, 4, 5):
        steps += _round_steps(10 * r, "random", "after-r%d" % (r + 1))
        steps += [{"op": "advance", "node": -1, "to": 10 * r + 4}, {"op": "deliverall", "order": "random"}]
    steps.append({"op": "quiesce", "label": "live-after-midround-restart"})
    return {"name": "restartmid-%d-%d-%d" % (n, t, k), "n": n, "t": t, "steps": steps}


def sc_synced_then_needed(rng, n, t, k):
    """a node falls behind by more than the partial-cache window while staying up (links cut), catches up by sync
    after the heal, and then becomes indispensable: another member stops, so that every round needs this node's
    partial in time.  The chain of the connected threshold must keep up with the clock."""
    steps = [{"op": "startall"}]
    for r in range(2):
        steps += _round_steps(10 * r, "random", "r%d" % (r + 1), live=True)
    v = rng.randrange(n)
    rest = [i for i in range(n) if i != v]
    steps.append({"op": "partition", "parts": [[v], rest]})
    now = 10
    for r in range(rng.randint(6, 7)):
        now += 10
        steps += _round_steps(now, "random", "cut")
    steps.append({"op": "dropall"})
    steps.append({"op": "heal"})
    for r in range(3):
        now += 10
        steps += [{"op": "advance", "node": -1, "to": now}, {"op": "deliverall", "order": "random"}]
        for c in (2, 4, 6, 8):
            steps += [{"op": "advance", "node": -1, "to": now + c}, {"op": "deliverall", "order": "random"}]
    # now exactly a threshold stays up, v included
    for i in rng.sample(rest, n - t):
        steps.append({"op": "stop", "node": i})
    for r in range(7):
        now += 10
        steps += [{"op": "advance", "node": -1, "to": now}, {"op": "deliverall", "order": "random"}]
        for c in (2, 4, 6, 8):
            steps += [{"op": "advance", "node": -1, "to": now + c}, {"op": "deliverall", "order": "random"}]
        if r >= 3:
            steps.append({"op": "quiesce", "label": "live-needed-%d" % r})
    return {"name": "syncedneeded-%d-%d-%d" % (n, t, k), "n": n, "t": t, "steps": steps}


def sc_stale_catchup(rng, n, t, k):
    """a node alone (the others are down) aggregates an old round from late partials while its clock is one round
    further: the catch-up timer is armed on top of that old head.  While the timer sleeps the node receives the
    partials of the following rounds (the rest of the network is ahead) and its head passes the round of its own
    clock.  When the timer fires, the partial it releases must still not be for a round beyond the node's clock."""
    steps = [{"op": "startall"}]
    steps += _round_steps(0, "random", "r1", live=True) + _round_steps(10, "random", "r2", live=True)
    v = rng.randrange(n)
    others = [i for i in range(n) if i != v]
    for i in others:
        steps.append({"op": "stop", "node": i})
    steps += [{"op": "advance", "node": v, "to": 20}, {"op": "advance", "node": v, "to": 30}]     # clock in round 4, head 2
    for i in others[:t - 1]:
        steps.append({"op": "adv", "node": v, "kind": "valid", "as": i, "round": 3})          # own + t-1 others: round 3 aggregated, timer armed (3 < 4)
    for rnd in (4, 5):
        for i in others[:t]:
            steps.append({"op": "adv", "node": v, "kind": "valid", "as": i, "round": rnd})    # head passes the clock's round
    for c in (32, 34, 36):
        steps.append({"op": "advance", "node": v, "to": c})                                   # the timer fires
    for i in others:
        steps.append({"op": "start", "node": i, "mode": "catchup"})
    for r in (4, 5, 6):
        steps += _round_steps(10 * r, "random", "after-r%d" % (r + 1))
        steps += [{"op": "advance", "node": -1, "to": 10 * r + 4}, {"op": "deliverall", "order": "random"}]
    steps.append({"op": "quiesce", "label": "live-after-stale-catchup"})
    return {"name": "stalecatchup-%d-%d-%d" % (n, t, k), "n": n, "t": t, "steps": steps}


def sc_allbehind(rng, n, t, k):
    """every node is equally behind (the whole network was stalled: all clocks jump several periods at once), so
    nobody can be synced from: the nodes must close the gap themselves in catch-up mode, one round per catch-up
    period."""
    steps = [{"op": "startall"}]
    steps += _round_steps(0, "random", "r1", live=True) + _round_steps(10, "random", "r2", live=True)
    gap = rng.randint(3, 5)
    now = 10 + 10 * gap
    steps += [{"op": "advance", "node": -1, "to": now}, {"op": "deliverall", "order": "random"}]
    for c in range(2, 2 * (gap + 3) + 2, 2):     # gap catch-up periods plus slack
        steps += [{"op": "advance", "node": -1, "to": now + c}, {"op": "deliverall", "order": "random"}]
    steps.append({"op": "quiesce", "label": "live-catchup-after-stall"})
    return {"name": "allbehind-%d-%d-%d" % (n, t, k), "n": n, "t": t, "steps": steps}


def sc_clocks(rng, n, t, k):
    """uneven clocks: bursts, stalls longer than a period, per-node skew up to one period."""
    steps = [{"op": "startall"}]
    clk = [-5] * n
    for _ in range(rng.randint(6, 12)):
        who = rng.choice(["all", "one", "most"])
        jump = rng.choice([2, 5, 10, 10, 10, 20, 30])
        ids = list(range(n)) if who == "all" else ([rng.randrange(n)] if who == "one" else rng.sample(range(n), max(1, n - 1)))
        for i in ids:
            target = clk[i] + jump
            if target - min(clk) > 12:      # keep the skew around one period
                target = min(clk) + 12
            if target > clk[i]:
                clk[i] = target
                steps.append({"op": "advance", "node": i, "to": target})
        steps.append({"op": rng.choice(["deliverall", "deliverall", "deliverto"]), "order": "random", "node": rng.randrange(n)})
    m = max(clk) + 10 - (max(clk) % 10)
    for r in range(4):
        steps += [{"op": "advance", "node": -1, "to": m + 10 * r}, {"op": "deliverall", "order": "random"}]
        for c in (2, 4, 6, 8):
            steps += [{"op": "advance", "node": -1, "to": m + 10 * r + c}, {"op": "deliverall", "order": "random"}]
    steps.append({"op": "quiesce", "label": "live-level"})
    return {"name": "clocks-%d-%d-%d" % (n, t, k), "n": n, "t": t, "steps": steps}


def sc_reshare(rng, shape, k):
    """old group = nodes 0..2 (t=2) of 5 identities; the new group per shape; transition at round 4."""
    shapes = {
        "same": ([0, 1, 2], 2), "add1": ([0, 1, 2, 3], 3), "remove1": ([0, 1], 2), "replace1": ([0, 1, 3], 2),
        "tup": ([0, 1, 2], 3), "add2": ([0, 1, 2, 3, 4], 3),
        "replacefirst": ([1, 2, 3], 2),     # every remaining member's share index changes (BeaconMembers.tla)
    }
    members, t2 = shapes[shape]
    steps = [{"op": "start", "node": 0, "mode": "start"}, {"op": "start", "node": 1, "mode": "start"}, {"op": "start", "node": 2, "mode": "start"}]
    steps += _round_steps(0, "random", "r1", live=False) + _round_steps(10, "random", "r2", live=False)
    steps.append({"op": "reshare", "nodes": members, "t": t2, "round": 4})
    # round 3, the last but one of the old group: the partials of the members that will leave are delivered first
    # (they are seen by everybody between the announcement of the new group and the switch)
    steps.append({"op": "advance", "node": -1, "to": 20})
    for v in range(3):
        if v not in members:
            for m in range(3):
                if m != v:
                    steps.append({"op": "deliver", "from": v, "node": m, "round": 3})
    steps += [{"op": "deliverall", "order": "random"}, {"op": "quiesce", "label": "r3"}]
    # joiners come up in catch-up mode before the transition (joinNetwork -> StartBeacon(catchup))
    for j in members:
        if j > 2:
            steps.append({"op": "start", "node": j, "mode": "catchup"})
    steps.append({"op": "deliverall", "order": "random"})
    # leavers keep running (StopAt with the old group's transition time fails); they are stopped by the script after the transition
    steps += _round_steps(30, "random", "r4")
    for v in range(3):
        if v not in members:
            # a leaver's partial made with the OLD share must not count any more
            for m in members:
                steps.append({"op": "adv", "node": m, "kind": "oldEpoch", "as": v, "round": 5})
    # a partial that VERIFIES against the new polynomial but carries a share index that no member of the new group
    # holds (e.g. the index a leaver had): it must not be accepted, let alone count
    for m in members:
        for ghost in range(len(members), len(members) + 3):
            steps.append({"op": "adv", "node": m, "kind": "validNonMember", "as": ghost, "round": 5})
    steps += _round_steps(40, "random", "r5")
    for v in range(3):
        if v not in members:
            steps.append({"op": "stop", "node": v})
    for r in range(5, 8):
        steps += _round_steps(10 * r, "random", "live-r%d" % (r + 1))
        for c in (2, 4, 6, 8):
            steps += [{"op": "advance", "node": -1, "to": 10 * r + c}, {"op": "deliverall", "order": "random"}]
    steps.append({"op": "quiesce", "label": "live-after-reshare"})
    return {"name": "reshare-%s-%d" % (shape, k), "n": 5, "t": 2, "group": [0, 1, 2], "steps": steps}


def sc_reshare_early(rng, k):
    """threshold raised 2 -> 3 on the same three members, transition at round 4.  A partial for the
    transition round made with an OLD share reaches nodes 1 and 2 before they switch groups (it is a valid
    partial of the group that is live at that moment); after the switch only two members contribute new-epoch
    partials: with the new threshold 3 no beacon of round 4 may be produced until the third member is back."""
    steps = [{"op": "startall"}]
    steps += _round_steps(0, "random", "r1") + _round_steps(10, "random", "r2")
    steps.append({"op": "reshare", "nodes": [0, 1, 2], "t": 3, "round": 4})
    # round 3: only node 0 gets the others' partials first and stores round 3
    steps += [{"op": "advance", "node": -1, "to": 20}, {"op": "deliverto", "node": 0, "order": "random"}]
    for v in (1, 2):
        steps.append({"op": "adv", "node": v, "kind": "oldEpoch", "as": 0, "round": 4})
    steps += [{"op": "deliverall", "order": "random"}, {"op": "quiesce", "label": "r3"}]
    steps.append({"op": "stop", "node": 0})
    steps += _round_steps(30, "random", "r4-two-of-three")
    for c in (2, 4, 6, 8):
        steps += [{"op": "advance", "node": -1, "to": 30 + c}, {"op": "deliverall", "order": "random"}]
    steps.append({"op": "quiesce", "label": "r4-still-two"})
    steps.append({"op": "start", "node": 0, "mode": "catchup"})
    for r in range(4, 8):
        steps += _round_steps(10 * r, "random", "r%d" % (r + 1))
        for c in (2, 4, 6, 8):
            steps += [{"op": "advance", "node": -1, "to": 10 * r + c}, {"op": "deliverall", "order": "random"}]
    steps.append({"op": "quiesce", "label": "live-after-reshare"})
    return {"name": "reshare-early-%d" % k, "n": 3, "t": 2, "steps": steps}


def sc_reshare_restart_split(rng, k):
    """n=4, t=3, same members reshared; after the result is stored (TransitionNewGroup registered, transition 6
    rounds ahead) two of the four nodes are restarted.  A restarted node loads the NEW group and share from disk
    (storeDKGOutput overwrote the files at DKG completion) and uses them at once, the other two still use the old
    ones until round tround-1 is stored: neither half reaches the threshold (known finding F41)."""
    steps = [{"op": "startall"}] + _round_steps(0, "random", "r1") + _round_steps(10, "random", "r2")
    steps.append({"op": "reshare", "nodes": [0, 1, 2, 3], "t": 3, "round": 9})
    steps += _round_steps(20, "random", "r3")
    for v in (0, 1):
        steps += [{"op": "stop", "node": v}, {"op": "start", "node": v, "mode": "catchup"}]
    for r in range(3, 11):
        steps += _round_steps(10 * r, "random", "live-r%d" % (r + 1))
        for c in (2, 4, 6, 8):
            steps += [{"op": "advance", "node": -1, "to": 10 * r + c}, {"op": "deliverall", "order": "random"}]
    return {"name": "reshare-restart-split-%d" % k, "n": 4, "t": 3, "steps": steps}


def sc_reshare_switch_race(rng, k):
    """TLC counterexample of BeaconReshare.tla (config racelive) as a gated script: threshold raised 2 -> 3 on the
    same three members, transition at round 4.  The "transition" callback (vault switch) of every node is parked
    after round 3 was stored; node 1 ticks round 4 and signs it with its OLD share; nodes 0 and 2, not yet switched,
    accept that partial (one slot per signer index in the round cache, first one wins); then everybody switches and
    signs round 4 with the new share: node 1's new partial is ignored as a duplicate signer, so no node ever holds
    three valid new-epoch partials for round 4 (known finding F42)."""
    steps = [{"op": "startall"}] + _round_steps(0, "random", "r1") + _round_steps(10, "random", "r2")
    steps.append({"op": "reshare", "nodes": [0, 1, 2], "t": 3, "round": 4})
    for i in range(3):
        steps.append({"op": "gate", "point": "transition.cb", "node": i})
    steps += [{"op": "advance", "node": -1, "to": 20}, {"op": "deliverall", "order": "random"}]
    for i in range(3):
        steps.append({"op": "waitgate", "point": "transition.cb", "node": i})
    steps.append({"op": "quiesce", "label": "r3-callbacks-parked"})
    steps += [{"op": "advance", "node": 1, "to": 30}, {"op": "deliverall", "order": "fifo"}]
    for i in range(3):
        steps.append({"op": "opengate", "point": "transition.cb", "node": i})
    steps += [{"op": "advance", "node": 0, "to": 30}, {"op": "advance", "node": 2, "to": 30}, {"op": "deliverall", "order": "random"}]
    steps.append({"op": "quiesce", "label": "live-r4"})
    for r in range(4, 8):
        steps += _round_steps(10 * r, "random", "live-r%d" % (r + 1))
        for c in (2, 4, 6, 8):
            steps += [{"op": "advance", "node": -1, "to": 10 * r + c}, {"op": "deliverall", "order": "random"}]
    return {"name": "reshare-switch-race-%d" % k, "n": 3, "t": 2, "steps": steps}


def sc_reshare_late(rng, k):
    """the resharing result is registered (TransitionNewGroup) only after the node already stored the last
    pre-transition round, but before the transition time: the vault must still switch on the next stored
    beacon and the new group must keep producing."""
    steps = [{"op": "startall"}]
    for r in range(3):
        steps += _round_steps(10 * r, "random", "r%d" % (r + 1))
    steps.append({"op": "advance", "node": -1, "to": 25})
    steps.append({"op": "reshare", "nodes": [0, 1, 2], "t": rng.choice([2, 3]), "round": 4})
    for r in range(3, 9):
        steps += _round_steps(10 * r, "random", "r%d" % (r + 1))
        for c in (2, 4, 6, 8):
            steps += [{"op": "advance", "node": -1, "to": 10 * r + c}, {"op": "deliverall", "order": "random"}]
    steps.append({"op": "quiesce", "label": "live-after-late-reshare"})
    return {"name": "reshare-late-%d" % k, "n": 3, "t": 2, "steps": steps}


# ----------------------------------------------------------------------------- TLC behaviours -> scripts

UNIT = 2  # seconds per model time unit (= catch-up period); P = 2 units => period 4 s


def behaviour_to_script(name, acts, nodes=("n1", "n2", "n3"), thr=2, expect=None):
    """acts: list of `act` records of a Beacon.tla behaviour (SyncDelivery or per-message)."""
    idx = {v: i for i, v in enumerate(nodes)}
    steps = [{"op": "gate", "point": "run.tick", "node": i} for i in range(len(nodes))]
    steps += [{"op": "gate", "point": "run.catchupFire", "node": i} for i in range(len(nodes))]
    steps.append({"op": "startall"})
    for k, a in enumerate(acts):
        nm = a.get("name")
        if nm == "Advance":
            steps.append({"op": "advance", "node": idx[a["n"]], "to": a["to"] * UNIT})
        elif nm == "TickRecv":
            steps.append({"op": "waitgate", "point": "run.tick", "node": idx[a["n"]]})
        elif nm == "TickSign":
            steps.append({"op": "release", "point": "run.tick", "node": idx[a["n"]]})
            if a.get("sync"):
                steps.append({"op": "deliverall", "order": "fifo"})
        elif nm == "Deliver":
            steps.append({"op": "deliver", "from": idx[a["from"]], "node": idx[a["n"]], "round": a["round"]})
        elif nm == "CatchupFire":
            steps.append({"op": "waitgate", "point": "run.catchupFire", "node": idx[a["n"]]})
            steps.append({"op": "release", "point": "run.catchupFire", "node": idx[a["n"]]})
            if a.get("sync"):
                steps.append({"op": "deliverall", "order": "fifo"})
        elif nm == "Stop":
            steps.append({"op": "stop", "node": idx[a["n"]]})
        elif nm == "Restart":
            steps.append({"op": "start", "node": idx[a["n"]], "mode": "catchup"})
        if expect and expect[k] is not None and nm in ("TickSign", "Deliver", "CatchupFire"):
            steps.append({"op": "expect", "heads": expect[k], "label": "%s#%d" % (nm, k)})
    return {"name": name, "n": len(nodes), "t": thr, "period": 2 * UNIT, "catchup": UNIT, "start": -UNIT, "steps": steps}


def cex_to_script(path, name, sync_delivery):
    j = json.load(open(path))
    acts, exp = [], []
    for tr in j["counterexample"]["action"]:
        st = tr[2][1]
        a = dict(st["act"])
        a["sync"] = sync_delivery
        acts.append(a)
        exp.append([st["head"][n] for n in ("n1", "n2", "n3")])
    return behaviour_to_script(name, acts, expect=None)


# ----------------------------------------------------------------------------- run

def scenarios_for(ctx, prop):
    rng = random.Random(ctx.seed * 7919 + sum(map(ord, prop)))
    q = ctx.quick
    out = []
    nts = [(3, 2), (4, 3)] if q else [(1, 1), (2, 2), (3, 2), (4, 3), (5, 3), (5, 4), (7, 4)]
    if prop in ("C01", "C02", "C03", "C05"):
        n, t = rng.choice(nts) if q else (3, 2)
        out.append(sc_happy(rng, n, t, 4 if q else 6, backend=rng.choice(["memdb", "trimmed", "bolt"])))
        if not q:
            for (n, t) in nts:
                out.append(sc_happy(rng, n, t, 5, backend=rng.choice(["memdb", "trimmed", "bolt"])))
    if prop in ("C01", "C03", "C04"):
        for (n, t) in ([(4, 3)] if q else [(3, 2), (4, 3), (5, 3), (5, 4)]):
            out.append(sc_adversary(rng, n, t, q))
    if prop == "C03":
        for (n, t) in ([rng.choice([(3, 2), (4, 3), (5, 3)])] if q else [(3, 2), (4, 3), (5, 3), (5, 4)]):
            for k in (t - 1, t, min(n, t + 1)):
                out.append(sc_threshold(rng, n, t, k))
    if prop == "C04":   # after restart and around resharing
        for k in range(2 if q else 10):
            n, t = rng.choice([(3, 2), (4, 3)])
            out.append(sc_faults(rng, n, t, k))
        out.append(sc_reshare(rng, rng.choice(["add1", "replace1", "tup"]), 0))
    if prop == "C05":
        for k in range(2 if q else 10):
            n, t = rng.choice([(3, 2), (4, 3), (3, 3)])
            out.append(sc_allbehind(rng, n, t, k))
        for k in range(1 if q else 6):
            n, t = rng.choice([(3, 2), (4, 3), (5, 3)])
            out.append(sc_long_partition(rng, n, t, k, ""))
            out.append(sc_long_partition(rng, n, t, k, "blackhole"))
    if prop in ("C02", "C05", "C01"):
        for k in range(3 if q else 24):
            n, t = rng.choice([(3, 2), (4, 3), (5, 3)])
            out.append(sc_faults(rng, n, t, k))
    if prop in ("C04", "C02"):
        for k in range(4 if q else 30):
            n, t = rng.choice([(3, 2), (4, 3)])
            out.append(sc_clocks(rng, n, t, k))
    if prop in ("C03", "C01", "C05"):
        for k in range(1 if q else 4):
            n, t = rng.choice([(3, 2), (4, 3), (5, 3)])
            out.append(sc_miss_one_round(rng, n, t, k))
    if prop in ("C04", "C05"):
        for k in range(2 if q else 6):
            n, t = rng.choice([(3, 2), (4, 3), (5, 3)])
            out.append(sc_restart_midround(rng, n, t, k))
    if prop == "C04":
        for k in range(1 if q else 4):
            n, t = rng.choice([(3, 2), (4, 3), (5, 3)])
            out.append(sc_stale_catchup(rng, n, t, k))
    if prop == "C05":
        for k in range(1 if q else 5):
            n, t = rng.choice([(4, 3), (5, 3), (5, 4)])
            out.append(sc_synced_then_needed(rng, n, t, k))
    if prop == "C07":
        shapes = ["same", "add1", "remove1", "replace1", "tup", "add2", "replacefirst"]
        for k, sh in enumerate(shapes if not q else [rng.choice(["same", "add1", "replace1", "tup", "add2"]), "remove1", "replacefirst"]):   # a leaver's index vanishing and every index shifting always run
            out.append(sc_reshare(rng, sh, k))
        out.append(sc_reshare_early(rng, 0))
        out.append(sc_reshare_late(rng, 0))
        out.append(sc_reshare_restart_split(rng, 0))
        out.append(sc_reshare_switch_race(rng, 0))
    if prop in ("C01", "C03"):
        out.append(sc_reshare_early(rng, 0))
    if prop == "C03":
        out.append(sc_reshare(rng, "remove1", 0))     # a valid partial under an index that no member holds any more
    return out


def run(ctx, prop, extra_scripts=None, scheme=None):
    scripts = scenarios_for(ctx, prop) + (extra_scripts or [])
    inp = os.path.join(ctx.work, "net-scripts-%s.ndjson" % prop)
    write_scripts(inp, scripts)
    env = {"VERIF_IN": inp}
    if scheme:
        env["SCHEME_ID"] = scheme
    trace = run_harness(ctx, "./internal/chain/beacon", "TestVerifNet", "net-%s-%s.ndjson" % (prop, scheme or "default"), env=env, timeout=1500)
    ok, alarms, res = ctx.validate_trace("Trace_Beacon", "Trace_Beacon.cfg", trace, timeout=1500, name="trace-net-%s" % (scheme or "default"))
    if ok:
        ctx.traces += count_lines(trace, "Init")
    ctx.sample({"stage": "beacon-network", "scheme": scheme or "default", "scenarios": [s["name"] for s in scripts][:8], "trace_head": sample_lines(trace, 2, 240)})
    ctx.extra.setdefault("net_events", 0)
    ctx.extra["net_events"] += count_lines(trace)
    mons = MON[prop] | ALWAYS
    drift = [a for a in alarms if a["mon"] == "Conformance"]
    for a in alarms:
        if a["mon"] in mons:
            ctx.alarm({"stage": "net", "mon": a["mon"], "scenario": scen_class(a["scenario"]), "detail": a["detail"]},
                      "beacon network: monitor %s failed at trace line %s (%s) in scenario %s [%s]" % (a["mon"], a["line"], a["detail"], a["scenario"], a["ev"]))
    others = sorted({(a["mon"], a["detail"]) for a in alarms if a["mon"] not in mons and a["mon"] != "Conformance"})
    if others:
        ctx.notes.append("monitors of other properties that fired on these traces (decided by their own checks): %s" % others)
    if drift:
        ctx.inconclusive.append("beacon network: %d conformance differences vs Beacon.tla behaviours (model drift), first: %s" % (len(drift), drift[0]))
    if count_lines(trace, "SettleTimeout"):
        ctx.notes.append("harness: %d settle timeouts (slow machine); affected steps were recorded as they happened" % count_lines(trace, "SettleTimeout"))
    return ok, alarms
