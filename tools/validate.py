#!/usr/bin/env python3-vt
import json, sys, glob, jsonschema
jsonschema.validate(json.load(open('/verif/MANIFEST.json')), json.load(open('/root/.vp/MANIFEST.schema.json')))
print("manifest valid")
s = json.load(open('/root/.vp/EVIDENCE.schema.json'))
for f in sorted(glob.glob('/verif/evidence/*.json')):
    try:
        jsonschema.validate(json.load(open(f)), s); print("ok", f)
    except Exception as e:
        print("INVALID", f, str(e)[:300])
