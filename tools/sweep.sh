#!/bin/bash
# usage: tools/sweep.sh <tier> <seed> <props...>  -- runs checks sequentially, logs to sweep-<tier>-<seed>/ (relative to cwd)
TIER=$1; SEED=$2; shift 2
OUT=sweep-$TIER-$SEED; mkdir -p $OUT
for p in "$@"; do
  s=$(date +%s)
  VERIF_SEED=$SEED python3 tools/check.py $p --tier $TIER > $OUT/$p.log 2>&1
  rc=$?
  echo "$p tier=$TIER seed=$SEED rc=$rc wall=$(( $(date +%s) - s ))s" >> $OUT/summary.log
done
