#!/bin/bash
# Runs the repository's test-suite with the verif tag OFF and compares with the stable baseline.
cd /repo && GOFLAGS=-mod=mod GOPROXY=off go test -json -vet=off -count=1 -timeout 25m ./... > /verif/.work/baseline-off.json 2>/verif/.work/baseline-off.err
python3 - <<'PY'
import json
passed=set(); failed=set()
for line in open('/verif/.work/baseline-off.json'):
    try: e=json.loads(line)
    except Exception: continue
    if e.get('Test') and e.get('Action') in ('pass','fail'):
        k=e['Package']+'::'+e['Test']
        (passed if e['Action']=='pass' else failed).add(k)
base=json.load(open('/root/.vp/BASELINE.json'))
stable=set(base['stable_pass'])
missing=sorted(stable-passed)
print("stable_pass:",len(stable),"passed now:",len(stable&passed),"missing:",len(missing))
for m in missing[:40]: print("  MISSING",m, "(failed)" if m in failed else "(not run)")
PY
