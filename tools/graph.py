"""Transition tours from TLC's labelled state graph (`-dump dot,actionlabels`).

tour(dotfile) yields scenarios that together take every edge of the graph at least once:
for each state s (reached by a shortest path from the initial state) one scenario applies, after
the path, all self-loop edges of s (the state does not change, so they can be chained) and one
scenario per state-changing edge."""
import json, re, collections, subprocess, os
import core

_EDGE = re.compile(r'^(-?\d+) -> (-?\d+) \[label="((?:[^"\\]|\\.)*)"')
_NODE = re.compile(r'^(-?\d+) \[label="((?:[^"\\]|\\.)*)"(.*)\]$')


def parse_label(lbl):
    """'SyncPut(<<1, 2, -1>>)' -> ('SyncPut', [[1,2,-1]]) ; 'Restart' -> ('Restart', [])"""
    lbl = lbl.replace('\\"', '"')
    m = re.match(r'^(\w+)(?:\((.*)\))?$', lbl, re.S)
    if not m:
        return lbl, []
    name, args = m.group(1), m.group(2)
    if args is None:
        return name, []
    js = args.replace("<<", "[").replace(">>", "]").replace("TRUE", "true").replace("FALSE", "false")
    try:
        return name, json.loads("[" + js + "]")
    except Exception:
        return name, [args]


def load(dotfile):
    nodes, edges, init = {}, collections.defaultdict(list), None
    with open(dotfile) as fh:
        for line in fh:
            line = line.rstrip("\n")
            m = _EDGE.match(line)
            if m:
                edges[m.group(1)].append((m.group(2), m.group(3)))
                continue
            m = _NODE.match(line)
            if m:
                nodes[m.group(1)] = m.group(2)
                if "filled" in m.group(3) and init is None:
                    init = m.group(1)
    return nodes, edges, init


def dump_graph(workdir, module, cfg, timeout=600):
    os.makedirs(workdir, exist_ok=True)
    r = core.run_tlc(workdir, module, cfg, workers=1, timeout=timeout, extra=["-dump", "dot,actionlabels", "graph.dot"])
    return r, os.path.join(workdir, "graph.dot")


def tour(dotfile, max_scenarios=None, rng=None):
    nodes, edges, init = load(dotfile)
    # BFS shortest paths (as label lists)
    path = {init: []}
    q = collections.deque([init])
    while q:
        s = q.popleft()
        for d, lbl in edges[s]:
            if d not in path:
                path[d] = path[s] + [lbl]
                q.append(d)
    scen = []
    nedges = 0
    for s in path:
        loops = [lbl for d, lbl in edges[s] if d == s]
        moves = [lbl for d, lbl in edges[s] if d != s]
        nedges += len(loops) + len(moves)
        if loops:
            scen.append(path[s] + loops)
        for lbl in moves:
            scen.append(path[s] + [lbl])
    if max_scenarios and len(scen) > max_scenarios and rng is not None:
        scen = rng.sample(scen, max_scenarios)
    return [[parse_label(l) for l in sc] for sc in scen], len(path), nedges
