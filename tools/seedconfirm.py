#!/usr/bin/env python3
"""Confirms a seeded change delivered by a mutation agent, in a fresh scratch worktree of /repo's HEAD:
demo passes on the clean tree, patch applies, tree builds, demo fails with the patch.  On success the seed is
copied to /verif/seeded/<name>/ (patch.diff, demo_test.go, demo_location.txt, meta.json, confirm.txt).
usage: seedconfirm.py <agent-worktree>/<SEED|SEED2> <name>"""
import os, re, shutil, subprocess, sys, time
src, name = sys.argv[1].rstrip("/"), sys.argv[2]
ROOT = os.path.dirname(os.path.dirname(os.path.abspath(__file__)))
loc = open(os.path.join(src, "demo_location.txt")).read()
path = re.search(r"^\s+(\S+_test\.go)", loc, re.M).group(1)
cmd = re.search(r"^\s+(GOFLAGS=.*)$", loc, re.M).group(1).strip()
wt = "/tmp/confirm-%d" % os.getpid()
def sh(c, cwd=wt, timeout=3000):
    p = subprocess.run(c, shell=True, cwd=cwd, capture_output=True, text=True, timeout=timeout)
    return p.returncode, (p.stdout + p.stderr)
log = []
def note(s):
    log.append(s); print(s, flush=True)
rc, o = sh("git -C /repo worktree add --detach %s HEAD -q" % wt, cwd="/")
ok = False
try:
    shutil.copy(os.path.join(src, "demo_test.go"), os.path.join(wt, path))
    t0 = time.time(); rc1, o1 = sh(cmd); note("clean tree: demo rc=%d (%.0fs)" % (rc1, time.time() - t0))
    rca, oa = sh("git apply %s" % os.path.join(src, "patch.diff")); note("patch applies: rc=%d %s" % (rca, oa.strip()[:200]))
    rcb, ob = sh("GOFLAGS=-mod=mod GOPROXY=off go build ./..."); note("build: rc=%d %s" % (rcb, ob.strip()[-300:]))
    t0 = time.time(); rc2, o2 = sh(cmd); note("patched tree: demo rc=%d (%.0fs)" % (rc2, time.time() - t0))
    fails = [l for l in o2.splitlines() if "--- FAIL" in l or "violated" in l][:4]
    note("  " + " | ".join(x.strip()[:160] for x in fails))
    ok = rc1 == 0 and rca == 0 and rcb == 0 and rc2 != 0 and "--- FAIL" in o2
    if rc1 != 0:
        note("clean-tree output tail: " + o1[-600:])
finally:
    sh("git -C /repo worktree remove --force %s" % wt, cwd="/")
note("CONFIRMED" if ok else "NOT CONFIRMED")
if ok:
    dst = os.path.join(ROOT, "seeded", name)
    os.makedirs(dst, exist_ok=True)
    for f in ("patch.diff", "demo_test.go", "demo_location.txt", "meta.json"):
        shutil.copy(os.path.join(src, f), os.path.join(dst, f))
    open(os.path.join(dst, "confirm.txt"), "w").write("\n".join(log) + "\n")
sys.exit(0 if ok else 1)
