from stages import dkgcontrol


def run(ctx):
    ctx.assumptions += [
        "kyber's Pedersen DKG / resharing is a black box whose outcome (complete or failed) the environment chooses; in the replay the peers are harness-run kyber protocol instances",
        "bbolt transactions are atomic (SaveFinished writes both buckets in one transaction)",
        "wall-clock timeouts are exercised with real short durations; a scenario that the machine could not run in the scripted order is retried slower or dropped (counted)",
        "participant lists are modelled as sets (order / permutations belong to C06); the Dkg oneof variant of GossipPacket is not sent (F1, C14)",
    ]
    dkgcontrol.run(ctx, dkgcontrol.MON_C08)
