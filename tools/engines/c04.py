from stages import beaconnet, beaconmodel


def run(ctx):
    q = ctx.quick
    beaconmodel.design(ctx, [("MC_Beacon_async2.cfg", dict(timeout=900))] +
                       ([] if q else [("MC_Beacon_sync3.cfg", dict(timeout=1500)),
                                        # n=4, t=3, one stop/restart, two rounds: 0.8 M states
                                        ("MC_Beacon_sync4.cfg", dict(timeout=1500, module="MC_Beacon4"))]))
    scripts = beaconmodel.early_cex(ctx)
    scripts += beaconmodel.sim_walks(ctx, 6 if q else 60)
    beaconnet.run(ctx, "C04", extra_scripts=scripts)
    ctx.assumptions += ["BLS signatures are unique per (key, message): a chain is modelled by its head in Beacon.tla",
                        "clock stamps of emissions are read from the sender's fake clock inside the ProtocolClient call (never earlier than signing)"]
