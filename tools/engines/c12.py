from stages import cache, syncserve


def run(ctx):
    # memory bound per signer + no cross eviction (partial cache)
    cache.run(ctx, cache.MON_C12)
    # storing a beacon / serving others never waits on a consumer that stopped reading (callback store)
    syncserve.run(ctx, syncserve.MON_C12_CALLBACKS)
