from stages import cache, syncserve, handover


def run(ctx):
    # memory bound per signer + no cross eviction (partial cache)
    cache.run(ctx, cache.MON_C12)
    # verified partials waiting for a busy aggregator are bounded by the blocking hand-over
    handover.run(ctx)
    # storing a beacon / serving others never waits on a consumer that stopped reading (callback store)
    syncserve.run(ctx, syncserve.MON_C12_CALLBACKS)
