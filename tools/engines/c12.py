from stages import cache


def run(ctx):
    cache.run(ctx, cache.MON_C12)
