from stages import cache, beaconnet


def run(ctx):
    cache.run(ctx, cache.MON_C03)
    beaconnet.run(ctx, "C03")
