from stages import beaconnet, beaconmodel


def run(ctx):
    q = ctx.quick
    # liveness on the design: under weak fairness of every protocol step all nodes reach MaxRound
    ctx.model_check("MC_Beacon", "MC_Beacon_live.cfg", timeout=900)
    if not q:
        ctx.model_check("MC_Beacon", "MC_Beacon_livef.cfg", timeout=2400)
    scripts = beaconmodel.sim_walks(ctx, 4 if q else 40)
    beaconnet.run(ctx, "C05", extra_scripts=scripts)
    ctx.assumptions += ["finite-trace form of liveness: at a quiescent point (no message in flight) after the faults healed, every running node stores the round that was due one period earlier"]
