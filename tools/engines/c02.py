from stages import beaconnet, beaconmodel, chainstore, syncclient
import random


def run(ctx):
    q = ctx.quick
    if not q:
        beaconmodel.design(ctx, [("MC_Beacon_async2.cfg", dict(timeout=900)), ("MC_Beacon_sync3.cfg", dict(timeout=1500))])
    chainstore.run(ctx, chainstore.MON_C02)
    schemes = beaconnet.schemes_for(ctx, 1)
    if q:  # one scheme per quick run, chained or not by seed
        schemes = [schemes[ctx.seed % 2]]
    for sch in schemes:
        beaconnet.run(ctx, "C02", scheme=sch)
    # chain repair (ReSync) interrupted between two store operations must not lose a stored round
    syncclient.run_repair_abort(ctx, {"RepairLosesRound", "WritesAboveHead"})
    ctx.assumptions += ["BLS signatures are unique per (key, message), so two valid beacons of a round are byte-identical (checked on traces by digest)"]
