from stages import beaconnet, beaconmodel


def run(ctx):
    q = ctx.quick
    beaconmodel.design(ctx, [("MC_Beacon_async2.cfg", dict(timeout=900))] +
                       ([] if q else [("MC_Beacon_sync3.cfg", dict(timeout=1500))]))
    try:
        from stages import chainstore
        chainstore.run(ctx, chainstore.MON_C02)
    except ImportError:
        ctx.notes.append("single-node writer-race stage (ChainStore.tla) not available in this build")
    for sch in beaconnet.schemes_for(ctx, 1):
        beaconnet.run(ctx, "C02", scheme=sch)
