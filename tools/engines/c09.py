from stages import dkgcontrol


def run(ctx):
    ctx.assumptions += [
        "BLS signatures (AuthScheme) are unforgeable: a packet verifies under a key only if the harness signed it with that key; what was signed (terms, acceptor) is the harness' ground truth recorded in the trace",
        "identities are (address, key, self-signature) triples from a finite catalogue: 4 honest members, an outsider, attacker keys substituted under members' addresses, swapped key, broken self-signature, unusable key bytes",
        "the Dkg oneof variant of GossipPacket is not sent (F1, C14)",
    ]
    dkgcontrol.run(ctx, dkgcontrol.MON_C09)
