from stages import dkgexec


def run(ctx):
    ctx.assumptions += [
        "kyber's Pedersen DKG / resharing is a black box (trusted base): under the synchrony the phases are designed for "
        "(a phase timeout fires only after every timely bundle of the phase reached every node; the bundles of a late node "
        "and of leavers miss every phase at every node) it yields the same QUAL = participants minus late nodes and shares of "
        "one polynomial at every node that is not late; non-uniform delivery across a phase boundary (the echo broadcast's "
        "documented weakness) is outside the explored envelope",
        "KickoffGracePeriod covers the gossip latency: every participant has registered its echo broadcast before anybody "
        "starts the protocol (the harness enforces this with the dkg.kickoff gate)",
        "BLS threshold signatures: Recover/VerifyRecovered of drand/kyber are the oracle for 'a threshold of shares signs'",
        "the wall clock is real: a script decides WHEN a node reads it (gate dkg.beforeTransitionTime), not what it returns; "
        "all nodes of a ceremony share one clock (no skew is needed to expose F9)",
    ]
    dkgexec.run(ctx, dkgexec.MON_C06)
