from stages import beaconnet, httprelay, memboot, syncclient


def run(ctx):
    # C01 at handler level: everything persisted (aggregation, sync) verifies for exactly its round,
    # everything served on the peer sync stream equals the stored beacon; whatever peers send.
    schemes = beaconnet.schemes_for(ctx, 1)
    if ctx.quick:
        schemes = [schemes[ctx.seed % 2]]
    for sch in schemes:
        beaconnet.run(ctx, "C01", scheme=sch)
    # HTTP relay: a 200 answer for round r is exactly the verifying beacon of round r
    httprelay.run(ctx, httprelay.MON_C01_HTTP)
    try:
        from stages import publicapi
        publicapi.run(ctx, publicapi.MON_C01)
    except ImportError:
        ctx.notes.append("gRPC PublicRand / PublicRandStream stage not available in this build")
    # a node with the in-memory store starts its chain from one beacon asked from its peers
    memboot.run(ctx)
    # chain repair (check + correct) writes to the raw store: whatever it writes verifies for its round, whatever the peers send
    syncclient.run_repair(ctx, {"OnlyVerifiedInOrder"})
    ctx.assumptions += ["the verification oracle is scheme.VerifyBeacon with the pinned group public key, computed by the harness independently of the node under test"]
