from stages import beaconnet


def run(ctx):
    # C01 at handler level: everything persisted (aggregation, sync) verifies for exactly its round,
    # everything served on the peer sync stream equals the stored beacon; whatever peers send.
    for sch in beaconnet.schemes_for(ctx, 1):
        beaconnet.run(ctx, "C01", scheme=sch)
    try:
        from stages import publicapi
        publicapi.run(ctx, publicapi.MON_C01)
    except ImportError:
        ctx.notes.append("public API / HTTP serving stage not available in this build")
    ctx.assumptions += ["the verification oracle is scheme.VerifyBeacon with the pinned group public key, computed by the harness independently of the node under test"]
