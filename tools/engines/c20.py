from stages import codec


def run(ctx):
    codec.run(ctx, codec.MON_C20)
