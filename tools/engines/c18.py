"""C18: every storage back-end behaves as one sorted round-to-beacon map."""
from stages import storebackend


def run(ctx):
    storebackend.run(ctx, storebackend.MONITORS)
    ctx.assumptions += [
        "postgres back-end (internal/chain/postgresdb) is out of scope: no PostgreSQL in the sandbox",
        "memdb capacities below 10 (k=3 of the TLC configs) are built with a struct literal equal to what "
        "memdb.NewStore sets, because NewStore refuses a bufferSize < 10; k >= 10 goes through NewStore",
        "bolt kinds: inside a Cursor callback only cursor calls are made from the callback's goroutine and "
        "Put/Del from another goroutine (bbolt documents that opening other transactions from a goroutine "
        "holding a read transaction can deadlock); a write that has to wait for the read transaction is "
        "recorded when it returns",
        "beacon signatures are deterministic byte strings that encode (round, identity); empty signatures are not explored",
        "Next on a never positioned cursor is outside the Cursor contract; the reference names what each back-end "
        "family does (bolt kinds: not found; ring: as if positioned on its first element)",
        "a bolt cursor iterates the snapshot of its read transaction and stays at the end once it ran off it; the ring's "
        "cursor iterates the live map by round and a call that finds nothing leaves it where it was",
    ]
