from stages import persist


def run(ctx):
    persist.run(ctx, persist.MON_C13)
