from stages import hashes


def run(ctx):
    hashes.run(ctx, hashes.MON_C17)
