from stages import beaconnet, grouptransition, dkgexec


def run(ctx):
    q = ctx.quick
    # design level: the transition to the reshared group (BeaconReshare.tla)
    ctx.model_check("MC_BeaconReshare", "MC_BeaconReshare_safety.cfg", timeout=600)
    r = ctx.model_check("MC_BeaconReshare", "MC_BeaconReshare_race.cfg", expect_ok=False, timeout=300)
    ctx.notes.append("MC_BeaconReshare_race (vault switch may run late): %s (named deviation F42; replayed gated as scenario reshare-switch-race)"
                     % (r.violated or "holds"))
    # membership-changing resharings (BeaconMembers.tla): joiners run with the new share before the transition,
    # leavers are never told, share indices shift; shapes as in the network scenarios reshare-<shape>
    shapes = ["add1", "remove1", "replace1", "replacefirst"]
    for sh in ([shapes[ctx.seed % 4], shapes[(ctx.seed + 1) % 4]] if q else shapes):
        ctx.model_check("MC_BeaconMembers", "MC_BeaconMembers_%s_%s.cfg" % (sh, "safety" if q else "live"), timeout=1500)
    if not q:
        ctx.model_check("MC_BeaconReshare", "MC_BeaconReshare_tup.cfg", timeout=1500)        # liveness, threshold up
        r2 = ctx.model_check("MC_BeaconReshare", "MC_BeaconReshare_racelive.cfg", expect_ok=False, timeout=1500)
        ctx.notes.append("MC_BeaconReshare_racelive: %s" % (r2.violated or r2.error or "holds"))
        r3 = ctx.model_check("MC_BeaconReshare4", "MC_BeaconReshare_restart.cfg", expect_ok=False, timeout=1500)  # n=4, t=3, two restarts in the window
        ctx.notes.append("MC_BeaconReshare_restart (F41 on the design): %s" % (r3.violated or r3.error or "holds"))
    # the rule that decides whether a reshared group may be adopted at all
    grouptransition.run(ctx)
    # real resharings (dkg.Process networks, DKGExec.tla): every completed resharing keeps the distributed public key,
    # genesis time and seed, period and scheme of the group it reshares
    dkgexec.run(ctx, {"IdentityKept"})
    schemes = beaconnet.schemes_for(ctx, 1)
    for sch in schemes:
        beaconnet.run(ctx, "C07", scheme=sch)
    ctx.assumptions += ["the DKG itself is not run here: the resharing is fabricated (same secret, fresh polynomial) and applied the way production does "
                        "(TransitionNewGroup on running members, joiners started in catch-up mode with the new group, restarted nodes load the new group/share)"]
