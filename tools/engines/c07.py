from stages import beaconnet


def run(ctx):
    for sch in beaconnet.schemes_for(ctx, 1):
        beaconnet.run(ctx, "C07", scheme=sch)
