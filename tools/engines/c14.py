from stages import endpoints, httprelay


def run(ctx):
    endpoints.run(ctx, endpoints.MONITORS)
    # HTTP relay: a parked request cancelled while the watch loop hands over the next round must not wedge the relay
    httprelay.run_c14(ctx, httprelay.MON_C14_HTTP)
    ctx.assumptions += [
        "A request is anything a remote party can put on the wire: every generated message went through proto.Marshal/Unmarshal "
        "(absent nested messages are nil, repeated elements are never nil); HTTP requests are paths on the REST listener.",
        "A panic inside a handler is contained when the caller of the real listener gets an error and the process keeps serving "
        "(grpc recovery interceptor / net/http per-connection recovery); a panic seen on a direct call alone is not a violation.",
        "Direct calls enter through the daemon's real NodeVersionValidator / NodeVersionStreamValidator, which internal/net/listener.go "
        "chains outside the recovery interceptor: a panic caught there is counted as the death of the process (such a request is then "
        "not sent to the real listener, where it would kill the harness).",
        "Node states: fresh (beacon loaded, no DKG), proposal (the node proposed a first DKG with the real command), running "
        "(1-of-1 group loaded through the key store), stopped (beacon shut down with the control command, daemon alive). "
        "The DKG execution phase (an echo broadcast registered) is modelled but not replayed.",
        "Blocked = no return within 5 s (25 s when the goroutine is not waiting for a lock); it is a verdict only when the goroutine "
        "dump shows the handler parked (lock, channel, select, sleep), otherwise the run is inconclusive.",
    ]
