from stages import secrecy


def run(ctx):
    secrecy.run(ctx, secrecy.MONITORS)
    ctx.assumptions += [
        "the oracle is a byte scan: it finds a secret only in the encodings it knows (raw big/little endian, hex lower/upper/"
        "reversed, Scalar.String(), base64 std/url at the 3 alignments, decimal, Go %v byte list, JSON int list); each encoding "
        "has a positive control per run (SelfTest) and the key/share/dkg.db files are required to test positive",
        "secrets scanned for: every node's long-term private scalar, every node's share of every epoch, every deal share "
        "(obtained by decrypting the deals on the wire with the recipients' keys); private polynomial coefficients of the "
        "kyber DKG are not reachable and not scanned for",
        "refusal paths are the ones the harness drives (wrong key / outsider / tampered / wrong member / wrong state / malformed / "
        "unknown beacon id, listed in coverage.inventory.refusal_paths_driven); an error path behind another precondition is not reached",
        "control endpoints are called in-package (service methods), peer traffic goes through an in-memory DKG client and a "
        "wrapped protocol client; TLS / gRPC framing is not part of what is scanned",
        "file modes are observed under the umask the harness sets (022; walks also 002, 077, 000); ownership/ACLs are not checked",
    ]
