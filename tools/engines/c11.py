from stages import syncserve


def run(ctx):
    syncserve.run(ctx, syncserve.MON_C11)
