from stages import syncclient


def run(ctx):
    syncclient.run(ctx, syncclient.MON_C10)
    ctx.assumptions += [
        "BLS signatures are unique per (round, previous signature): a round's valid content is one value",
        "peers are scripted (7 behaviours, fault position k, head); a stream's content is ItemOf(kind, k, from, pos, head)",
        "the environment of Run is fair: every period a RunSync request arrives while the node is behind; "
        "math/rand permutations are drawn again and again (150 periods on real code; strong fairness in TLC)",
        "corruption for check/repair happens on the running node's bolt file (trimmed format), never on round 0",
        "processing one streamed beacon takes less than a period (liveness configs only)",
    ]
