"""THROW-AWAY test engine of the HTTP stage (the real one is tools/engines/c01.py, which calls
stages.httprelay.run(ctx, httprelay.MON_C01_HTTP)).  Known findings of C01 are mapped to this id."""
import core
from stages import httprelay

_orig = core.load_known


def _load():
    out = []
    for k in _orig():
        if k.get("property") == "C01":
            k = dict(k)
            k["property"] = "C91"
        out.append(k)
    return out


def run(ctx):
    core.load_known = _load
    httprelay.run(ctx, httprelay.MON_C01_HTTP)
    ctx.assumptions += ["the verification oracle is scheme.VerifyBeacon with the pinned group public key and sha256(signature), computed by the harness independently of the handler under test"]
