"""THROW-AWAY test engine of the HTTP stage only (delete)."""
import core
from stages import httprelay
_orig = core.load_known


def _load():
    return [dict(k, property="C91") if k.get("property") == "C01" else k for k in _orig()]


def run(ctx):
    core.load_known = _load
    httprelay.run(ctx, httprelay.MON_C01_HTTP)
