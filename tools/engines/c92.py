"""THROW-AWAY test engine of the HTTP hand-over stage (delete)."""
from stages import httprelay


def run(ctx):
    httprelay.run_c14(ctx)
