from stages import roundtime


def run(ctx):
    roundtime.run(ctx, roundtime.MON_C16)
