from stages import routing


def run(ctx):
    routing.run(ctx, routing.MONITORS)
    ctx.assumptions += [
        "An absent beacon id is the default id (common.GetCanonicalBeaconID), except that a known chain hash alone selects its chain.",
        "A beacon process that has no group yet has no chain hash: a request whose hash belongs to no running chain and whose id "
        "(absent = default) names such a process is counted as naming it (readBeaconID's acceptance for nodes still waiting for their chain hash).",
        "Which chain answered is identified by key material of fabricated 1-of-1 groups (beacon signature verification, chain-info hash, "
        "identity key, group key); Status answers, which carry no identity, by their chain-store fingerprint; BLS verification and the hash are trusted.",
        "Shutdown without a beacon id stops the whole daemon by design and is not a routed request.",
    ]
