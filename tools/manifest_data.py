BASELINE_OFF = ("cd /repo && GOFLAGS=-mod=mod GOPROXY=off go test -vet=off -count=1 -timeout 25m ./...")
HOOK_COMMITS = ["3eb0f143", "ec29f447", "f0d610d1", "122052f1", "836267ab", "6c88416e"]
NOTES = ("One engine. Every check is `python3 tools/check.py <id> --tier quick|thorough`; exit 0/1/2 as in DESIGN.md 1.1. "
         "Scratch files live in /verif/.work (ignored by git).")

ALL = ["C%02d" % i for i in range(1, 21)]

_NET = ("an in-memory network of REAL beacon Handlers (real threshold BLS, per-node fake clocks, harness-scheduled delivery, "
        "gates at the run loop's tick / catch-up points), driven by TLC behaviours of Beacon.tla (counterexamples, simulation walks) "
        "and by seeded fault/adversary/clock/reshare scripts; every linearization point is recorded and TLC evaluates the monitors "
        "of Trace_Beacon.tla on every step of the recorded execution")
_TRUST = ("Trusted: TLC; BLS uniqueness (a chain is modelled by its head in Beacon.tla); the harness oracles (independent VerifyBeacon / "
          "VerifyPartial with the pinned group key, clock stamps taken inside the ProtocolClient call); the in-memory ProtocolClient "
          "stands for gRPC (same calls, asynchronous delivery).")
_TECH = "TLA+ spec + TLC exhaustive model checking + replay of TLC behaviours on real code + TLC trace validation"

CHECKS = {
 "C01": {
  "text": "Handler level: " + _NET + ". Monitors: every beacon persisted by aggregation or sync verifies for exactly its round under the pinned key "
          "(StoredUnverifiable, ScanUnverifiable on a final cursor scan), every item served on a peer sync stream equals the stored beacon, under streams of "
          "forged partials of every kind (wrong key/round/previous, replayed, truncated, bit-flipped, non-member, own index) from up to n-t members; "
          "1-2 schemes in quick, all 5 in thorough. HTTP: HttpRelay.tla transcribes handler/http/server.go (PublicRand, the two looks of getRand, the watch loop with "
          "skips/failures/reconnects, timeouts, LatestRand); TLC explores it exhaustively, its counterexamples and a transition tour of the complete labelled state graph are replayed on the real "
          "DrandHandler (scripted client over fabricated valid chains of all 5 schemes) and Trace_HttpRelay evaluates on every observed response that a 200 is exactly one verifying beacon of the "
          "requested round with randomness = sha256(signature). gRPC PublicRand / PublicRandStream: PublicRand.tla tour on a real BeaconProcess. In-memory-store bootstrap: "
          "MemBoot.tla (storeCurrentFromPeerNetwork: first usable answer, latest-round fallback, genesis for round 0, verify before Put) with the complete catalogue of peer answers "
          "(9 kinds per peer and request, either arrival order, 3 schemes) run on the real code and judged by Trace_MemBoot. "
          "Chain repair: the directed repair scenarios of SyncClient.tla (honest and lying peers, interrupted corrections) on the real SyncManager with OnlyVerifiedInOrder "
          "(whatever a repair writes into the raw store verifies for its round).",
  "design_ref": "DESIGN.md 4 C01", "note": _TRUST, "technique": _TECH,
 },
 "C02": {
  "text": "Exhaustive TLC on Beacon.tla (heads move by one, n=3,t=2) plus " + _NET + ". Monitors on every StorePut of every node: only head+1 is stored "
          "(GapOrOutOfOrder), a stored round is never replaced by another value (Rewrite), chained link (BadLink), any two nodes agree on every round "
          "(Disagreement), and a final cursor scan of each base store is exactly 0..head with the bytes that were put; across drops, duplicates, partitions, "
          "stop/restart, bolt trimmed/untrimmed and memdb. Store stack: ChainStore.tla complete labelled state graph toured on the real append/scheme store stack incl. the "
          "mutual-exclusion and failing-write races. Chain repair: interrupted corrections (context cancelled / write failing between any two store operations, 3 back-ends) on "
          "the real SyncManager with RepairLosesRound (no stored round disappears).",
  "design_ref": "DESIGN.md 4 C02", "note": _TRUST, "technique": _TECH,
 },
 "C03": {
  "text": "Exhaustive TLC on PartialCache.tla (complete state graph, duplicates never count, distinct signer count) with TLC walks at the real constant replayed on "
          "the real partialCache; node level: " + _NET + ". Monitors: a beacon stored by aggregation had >= threshold distinct valid current-member partials for exactly "
          "(round, previous) delivered to that node (BelowThreshold), and nothing invalid / non-member / own-index ever reaches the aggregator; contributing subsets t-1, t, t+1.",
  "design_ref": "DESIGN.md 4 C03", "note": _TRUST, "technique": _TECH,
 },
 "C04": {
  "text": "Exhaustive TLC on Beacon.tla (n=3,t=2, per-message delivery MaxRound=2; synchronous delivery MaxRound=3 with skew of a full period): NoEarlyPartial, NoEarlyBeacon; "
          "the schedule TLC found for the original code (tick handled with the chain ahead) is replayed with gates on the real handlers; " + _NET + ". Monitors: every partial an honest "
          "node sends is stamped with its clock and must not precede its round's time; no partial beyond clock+1 is accepted; no beacon while all clocks are behind.",
  "design_ref": "DESIGN.md 4 C04", "note": _TRUST, "technique": _TECH,
 },
 "C05": {
  "text": "TLC checks the temporal property Live (all nodes reach MaxRound) on Beacon.tla under weak fairness, without state constraint; real code: " + _NET +
          " with fault scripts (partition, drop, stop/restart in catch-up mode) followed by a healed period; monitor NoProgress: at a quiescent point every running node stores the "
          "round that was due one period earlier, heads consecutive.",
  "design_ref": "DESIGN.md 4 C05", "note": _TRUST + " Liveness on real code is judged on finite traces at quiescence (no message in flight).", "technique": _TECH,
 },
 "C06": {
  "text": "Multi-node TLA+ model of one DKG ceremony (first DKG or resharing), checked exhaustively by TLC for 3-4 nodes: every delivery order of proposal/accept/execute gossip and of deal/response/"
          "justification bundles, the hash-dedupe echo re-broadcast, the leader's proposal lock, start order, phase timeouts, one evicted late node and leavers, every key order x every listing order "
          "of the participant lists, completion times in a window containing a round boundary. TLC counterexamples and -simulate walks (incl. duplicate deliveries) are replayed on networks of real "
          "dkg.Process instances (real bolt stores, real signatures, the real kyber DKG, an in-memory net.DKGClient the harness schedules, gates at kick-off and at the clock read); Trace_DKGExec "
          "re-applies the spec operators to every recorded call and evaluates on what every node's GetFinished holds: SameGroup per field, OwnIndex, ShareOnPoly, ThresholdSigns (every t-subset), "
          "OrderIndependent. n 1..4 quick / 1..7 thorough, all admissible thresholds, first DKG then reshare (same, add, remove, swap), default scheme quick / all 5 thorough.",
  "design_ref": "DESIGN.md 4 C06",
  "note": "Trusted: kyber's Pedersen DKG/resharing under phase synchrony (a timeout fires only after every timely bundle reached every node), kyber tBLS Recover/Verify as signing oracle, one shared "
          "real wall clock (scripts decide when a node reads it). n >= 5 by simulation and free runs, not exhaustively.",
  "technique": "TLA+ spec + TLC exhaustive model checking and simulation + behaviour replay on real dkg.Process networks + TLC trace validation",
 },
 "C07": {
  "text": "Design: BeaconReshare.tla (which share epoch signs and counts around the transition round: asynchronous vault switch, one slot per signer in a round cache, restart loading the new group) "
          "checked by TLC: OnlyNewShares / VaultFollowsChain exhaustively, liveness for a threshold-raising reshare, and the two named deviations as expected counterexamples; "
          "BeaconMembers.tla (membership-changing resharings: joiners running with the new share before the transition, leavers never told, shifted share indices; shapes add1/remove1/replace1/"
          "replacefirst): safety in quick, liveness under weak fairness in thorough. "
          "Handler level with a fabricated resharing (same secret, fresh polynomial; shapes same/add/remove/replace/threshold-up): remaining members get TransitionNewGroup, joiners start in "
          "catch-up mode, leavers are stopped after the transition, as production does; " + _NET + ". Monitors: distributed key unchanged, C02 monitors across the transition round, "
          "partials made with old-epoch shares are not accepted after the switch, the new group keeps producing (NoProgress). Identity: GroupTransition.tla <-> validateGroupTransition "
          "(complete catalogue), and real resharings on dkg.Process networks (DKGExec.tla behaviours, shared with the C06 check) with monitor IdentityKept: every node's completed "
          "resharing keeps the distributed public key, genesis time and seed, period and scheme of the group it reshares.",
  "design_ref": "DESIGN.md 4 C07", "note": _TRUST + " The beacon-network part uses a fabricated resharing; the DKG part does not run beacons.", "technique": _TECH,
 },
 "C13": {
  "text": "Exhaustive TLC exploration of Persist.tla: every persistence step of scripted runs (first DKG, beacons, resharing, leaving) in the code's order with Crash enabled in every state and "
          "Restart mirroring LoadBeaconFromStore/Load (plus a family of 170 runs). TLC prints each run's persistence steps and crash points; a Go harness executes the run on a real DrandDaemon "
          "(bolt chain db, dkg.db, file key store, real beacon handler, fake clock, 2-of-3 group whose other members are simulated in memory), copies the node's directories at every crash point "
          "(incl. torn key files) while the writer is parked and starts a fresh DrandDaemon (LoadBeaconsFromDisk) on every copy. TLC trace validation checks step order and on-disk abstract state "
          "against the spec and evaluates Mon_ChainIntact / Mon_FinishedWhole / Mon_KeyEpoch / Mon_Resumes on the observed restart records.",
  "design_ref": "DESIGN.md 4 C13",
  "note": "Trusted: TLC; bbolt transaction atomicity and durability (one tx = one step). A crash is a copy of the files at a step boundary (process death, not unsynced-page loss); a torn file is the 0-byte "
          "and the half-length prefix. The kyber DKG is not run: the harness performs the tail of executeAndFinishDKG (Complete, SaveFinished, fan-out) in that order on the daemon's real store and channel. "
          "Resumes = the handler was created and is running on the restarted daemon.",
  "technique": "TLA+ spec + TLC exhaustive model checking + spec-driven crash-point enumeration on the real daemon + TLC trace validation",
 },
 "C08": {
  "text": "TLA+ open-system model of one dkg.Process (DKG.tla: both DB buckets, every operator command, every gossip packet of a finite catalogue with single mutations, time passing, execution outcome), "
          "exhaustive per role (leader, member, leaver, joiner); every status-graph edge, every refused call per state class, every shortest model counterexample and seeded multi-epoch TLC walks "
          "(abort / fail / retry, byte-identical re-sends) are executed on a real dkg.Process (bolt store, real BLS signatures, real kyber executions against harness peers); TLC re-applies the transition "
          "function to each recorded call (Conformance) and evaluates LegalStep, EpochMonotone, FinishedOnlyByLaterComplete, RejectedKeepsFinished, RejectedLeavesUsable, InvalidProposalRejected and "
          "StillUsable on the observed buckets.",
  "design_ref": "DESIGN.md 4 C08",
  "note": "kyber DKG outcome and qualified set are environment choices; bbolt atomicity trusted; participant lists as sets; the Dkg oneof variant is exercised by C14, not here; v1->v2 migration not exercised; "
          "bounds 2-3 epochs, 5 identities; real-time timeouts (late scenarios retried or dropped, counted in the evidence).",
  "technique": "TLA+ spec + TLC exhaustive model checking + replay of TLC behaviours on a real dkg.Process + TLC trace validation",
 },
 "C09": {
  "text": "Same DKG.tla machinery as C08 with identities modelled as (address, key, self-signature) triples incl. attacker keys placed under members' addresses; monitors C09_SignedBySender, C09_KeyFromGroup, "
          "C09_Entitled, C09_SigCoversTerms evaluated by TLC over packet type x claimed sender x signing key x single-field tampering in every state class, on packets concretised with real keys and "
          "signatures and sent to a real dkg.Process.Packet.",
  "design_ref": "DESIGN.md 4 C09",
  "note": "BLS unforgeability assumed; what was signed is harness ground truth; finite identity catalogue (3 members + joiner + outsider + substituted keys).",
  "technique": "TLA+ spec + TLC exhaustive model checking + replay of TLC behaviours on a real dkg.Process + TLC trace validation",
 },
 "C10": {
  "text": "Exhaustive bounded TLC exploration of SyncClient.tla: three peers, all behaviour mixes up to symmetry over Honest, Silent, Stall, CloseEarly, BadSig, WrongRound, ForeignId, "
          "transient-then-honest and behind-the-target, chained and unchained, start heights and targets, participant / follow / repair modes, concurrent Sync goroutines plus the aggregator; "
          "safety invariants OnlyVerifiedInOrder, NothingFromLiars, gap-free chain, RepairUntouched, CheckNeverAborts and the liveness property Converges under fairness without state constraint. "
          "TLC simulation walks and the design counterexamples are replayed on the real SyncManager behind the production store stack (real trimmed bolt store, real BLS beacons, in-memory "
          "ProtocolClient, fake clock) and on the real BeaconProcess.StartFollowChain; TLC validates both recorded traces and evaluates OnlyVerifiedInOrder, NothingFromLiars, CheckExact, "
          "RepairExact and Converges (at quiescence) on the observed values.",
  "design_ref": "DESIGN.md 4 C10",
  "note": "Trusted: TLC, BLS uniqueness, the harness oracles (independent VerifyBeacon under the pinned key, store read-back, goroutine-stack quiescence test). Peers are scripted per stream. "
          "Run-mode liveness on real code means target reached within 150 fair periods. Check and repair are driven through chainStore.ValidateChain / RunReSync (the calls StartCheckChain makes). "
          "Only the bolt trimmed backend is used for corruption/repair.",
  "technique": "TLA+ spec + TLC exhaustive model checking (safety and liveness) + TLC-generated scenario replay + TLC trace validation of real-code executions",
 },
 "C15": {
  "text": "TLC checks exhaustively (1 and 2 nodes, epochs <= 2, 4 umasks) that no emission of the 45-emitter inventory of Secrecy.tla carries a private-key or share atom (emitter contents are "
          "projections of the code's objects onto the fields each function copies) and that secret-bearing files are owner-only at every system call of a save. TLC walks of the file machine are "
          "replayed on the real key/DKG/chain stores; a real first DKG, resharing, complaint plus justification, a rejected and aborted proposal, and a real beacon-producing daemon answering every "
          "gRPC/HTTP endpoint in three lifecycle phases are recorded (all packets, responses, stream items, HTTP bodies, debug logs, stdout, files). TLC validates the recording with the monitors "
          "NoSecretEmitted, OnlyPublicOrEncrypted and SecretFileOwnerOnly on a byte-scan oracle for every long-term scalar, share and decrypted deal share; the evidence lists which emitters were exercised.",
  "design_ref": "DESIGN.md 4 C15",
  "note": "Detection power is the byte scan: only the listed encodings are seen (each with a positive control per run). kyber's private polynomial coefficients are not reachable. TLS/gRPC framing, "
          "the metrics HTTP server and CLI output are not scanned. File modes are as observed under the umask the harness sets.",
  "technique": "TLA+ inventory model + TLC exhaustive model checking + TLC trace validation of recorded real traffic/files/logs with a byte-scan oracle",
 },
 "C11": {
  "text": "SyncServe.tla (stream server + callback layer, one action per critical section) checked exhaustively by TLC for 1-2 streams, start rounds {0, middle, head, head+1}, 2-3 appends interleaved "
          "at every point, bolt-snapshot and memdb-live cursors, same-address replacement, two writers. All 1073 maximal behaviours of the bounded model plus sampled larger ones are executed gated on "
          "the real SyncChain/callbackStore/appendStore over boltdb (trimmed; untrimmed and memdb in thorough); the recorded traces, including un-gated concurrent soak with reconnecting clients, are "
          "judged by Trace_SyncServe.tla (NoRepeat, InOrder, NoGap, FromStart, DigestOk, LiveComplete, Refusal).",
  "design_ref": "DESIGN.md 4 C11",
  "note": "gRPC replaced by an in-process SyncStream (a Send that does not return stands for flow control). PublicRandStream's proxy only converts the packet type before calling the same SyncChain "
          "(it is driven in the C01 check). Beacon contents are not verified here. Gated bolt scenarios use a pre-sized file. Go's random select choice is marked nondet and predictions are not compared there.",
  "technique": "TLA+ spec + TLC exhaustive model checking + gated replay of all bounded behaviours on real code + TLC trace validation",
 },
 "C14": {
  "text": "TLC explores DaemonEndpoints.tla, the lock program (acquire/release order incl. nested calls, defer-vs-explicit unlock, panic points) of every peer-facing/public handler per request path class "
          "and node state, sequentially (sequences <= 3; Responds, NoLockLeft) and with one request interleaved with one internal step of the daemon at lock operations (NoDeadlock). Every (state x endpoint x "
          "shape) edge is replayed on real daemons in four node states (fresh, proposal, running, stopped): directly under a deadline with goroutine-dump diagnosis, then through the real loopback gRPC / REST "
          "listeners; after each call probe calls, TryLock observations, a beacon-loop liveness check and a process-alive check. Thorough adds seeded random protobuf-valid variants per class; gated "
          "concurrent scenarios run against a DKG result being stored. TLC trace validation evaluates Responds / StillServes / NoLockLeft / LoopAlive / ProcessAlive / NoDeadlock. "
          "HTTP relay hand-over: HttpRelay.tla SpecFine (watch loop critical section and the waiter's select as separate steps, channel capacity as a constant) checked exhaustively; the Cap=0 counterexample "
          "schedule and a tour of the hand-over graph are replayed on the real DrandHandler with the loop gated inside its critical section; RelayNotWedged judged on loop completion, handler returns and probes.",
  "design_ref": "DESIGN.md 4 C14",
  "note": "Requests are wire-reachable (every message passes Marshal/Unmarshal). A handler panic counts as contained when the listener's caller gets an error and the process keeps serving. The DKG execution "
          "phase (echoBroadcast) is modelled but not replayed. Blocked = no return in 5 s (4x extra when the goroutine is not waiting on a lock).",
  "technique": "TLA+ lock model + TLC exhaustive and interleaving model checking + replay on real daemons (direct and loopback gRPC/HTTP, gated) + TLC trace validation",
 },
 "C16": {
  "text": "RoundTime.tla holds the exact integer definitions of round/time conversion, the relations of the statement and a line-by-line transcription of common/time.go on a W-bit machine (wrapping "
          "uint64/int64 arithmetic, the log2-based guard, the reserved buffer). TLC explores exhaustively the statement's small grid (p 1..6, g 0..5, 41 instants, rounds 0..45) and 8- and 10-bit machines "
          "(thorough: 12-bit) over their complete domain. Binding: TLC-generated grid and mid-range vectors (<= 2^31-1), Apalache-generated 64-bit boundary witnesses in 43 classes (around the guard, "
          "period +-1 a power of two, the buffer edge, wrapping/negative products, instants on round boundaries up to 2^50 s, maximum period and genesis), their neighbours and seeded random points are "
          "executed on the real TimeOfRound/CurrentRound/NextRound; every observed call is judged by TLA+ operators (Mon_CurrentUnique, Mon_CurrentSchedule, Mon_Next, Mon_Monotone, Mon_NoWrap): TLC below "
          "2^31, Apalache for the 64-bit instance (each batch carries a canary tuple).",
  "design_ref": "DESIGN.md 4 C16",
  "note": "Trusted: TLC, Apalache/Z3, the harness's routing of values to TLC or Apalache. The float64 division in NextRound is modelled as exact inside the statement's domain (argued in the spec header, "
          "sampled by the 64-bit vectors, not proved). The 64-bit region is covered by boundary classes plus sampling, not exhaustively. The error value is allowed from the coded guard on.",
  "technique": "TLA+ spec + TLC exhaustive model checking + Apalache (SMT) witnesses and judging + trace validation of real-code calls",
 },
 "C17": {
  "text": "Hashes.tla models the abstract hash as an injective tuple of exactly the fields the code hashes; TLC explores the complete graph of actions (single-field changes, node permutations, resharing, "
          "encoding paths, tampered decodes; chain 64 values, group 28k quick / 134k thorough). The complete chain-info catalogue and TLC simulation walks are concretised with real points per scheme (2 by "
          "seed in quick, all 5 in thorough) and run on Info.Hash, Group.Hash, JSON, protobuf, hexjson, group TOML, group protobuf and the group file store; Trace_Hashes.tla checks for every pair of "
          "computations that digests are equal iff the abstract tuples are equal, over all paths, and that a chain info whose embedded hash does not match its fields is rejected on decode.",
  "design_ref": "DESIGN.md 4 C17",
  "note": "Trusted: collision resistance of the hash functions, the harness's concretisation. The catalogue is non-adversarial (the chain preimage is not length-delimited: seed||id; outside the statement).",
  "technique": "TLA+ spec + TLC exhaustive model checking + simulation-generated behaviours + trace validation",
 },
 "C20": {
  "text": "Codec.tla models the presence/absence lattice x statuses of seven value types (group 1..3 nodes quick / 1..10 thorough, key pair, identity, share, chain info, DKG DBState 12 statuses x 10 optional "
          "parts, beacon), the encoding paths each travels and Normalise. TLC enumerates the whole lattice; every enumerated value is concretised per scheme and sent through the real encoders/decoders (TOML, "
          "file store, protobuf wire, JSON, hexjson, the bolt DKG store's buckets); Trace_Codec.tla compares the projection of the decoded value plus content and hash equality with Normalise and demands "
          "rejection of malformed groups (threshold out of range, unknown scheme) on all four group decoders.",
  "design_ref": "DESIGN.md 4 C20",
  "note": "Structural round-trip only: byte fidelity is shown for a few representative strings. Not covered: groups beyond 10 nodes, sub-second periods. Trusted: the harness projection.",
  "technique": "TLA+ spec + TLC exhaustive enumeration + trace validation of real encoders/decoders",
 },
 "C18": {
  "text": "Exhaustive TLC on StoreBackend.tla: complete state graphs of the transcribed bolt-untrimmed, bolt-trimmed (unchained and chained context) and memdb-ring back-ends against a reference sorted map "
          "round->beacon (rounds 0..4, 2-3 value identities, ring capacity 3 and 2, cursor sub-steps, Put/Del while a cursor is open). TLC-generated behaviours (one path per class of monitor failure, a sampled "
          "state cover of the complete graph, seeded simulation walks) plus seeded long random sequences (gaps, deletions, re-puts, dense appends, rounds around 2^8/2^16/2^24/2^31, cursors whose callback "
          "interleaves First/Next/Seek/Last with Put/Del/Get) are executed on real stores (boltdb.NewBoltStore with and without the previous-required context, memdb.NewStore). Every call and its result is "
          "validated by TLC with Trace_StoreBackend.tla: RefinesSortedMap, LabelMatchesData, AscendingIteration, SeekStoredReturnsIt, PrevIsPredecessorSig, RingForgetsOnlyOldest.",
  "design_ref": "DESIGN.md 4 C18",
  "note": "Trusted: TLC; the decoding of returned bytes to (kind, round, identity). Postgres back-end out of scope (no PostgreSQL in the sandbox). One cursor at a time. Rounds below 2^31 (TLC integers). "
          "Ring capacities below 10 are built with a struct literal equal to NewStore minus its size guard.",
  "technique": "TLA+ spec + TLC exhaustive model checking + replay of TLC behaviours on real stores + TLC trace validation",
 },
 "C19": {
  "text": "Exhaustive TLC exploration of DaemonRouting.tla, a transcription of beaconProcesses / chainHashes / the HTTP handler table and of readBeaconID, getBeaconProcessByID, getBeaconHandler, "
          "AddBeaconHandler, Shutdown: all load / dkg-done / stop histories over default + 2 chains (+3 in thorough), and in every state the whole id{absent, default, each, unknown} x hash{absent, each, "
          "unknown, malformed} x endpoint product. A transition tour of the complete labelled state graph is replayed on a real DrandDaemon hosting fabricated 1-of-1 chains (real LoadBeacon / Shutdown / "
          "completed-DKG paths); the request product is fired in every visited state on 11 gRPC methods and 4 HTTP paths. TLC trace validation evaluates RoutedRight (the answering chain, identified by whose "
          "key verifies the answer, is the one named, still runs, is default only for unnamed requests; a mismatching pair is refused) and KeepsWorking.",
  "design_ref": "DESIGN.md 4 C19",
  "note": "Trusted: TLC, BLS verification and the chain-info hash, the projection of the daemon's maps. An absent id is read as default. A process without group has no hash yet, so an unknown hash cannot mismatch "
          "it (the code's pre-DKG acceptance, stated as an assumption). StartFollowChain/StartCheckChain/BackupDatabase are not in the product.",
  "technique": "TLA+ spec + TLC exhaustive model checking + transition-tour replay on the real daemon + TLC trace validation",
 },
 "C12": {
  "text": "Exhaustive TLC exploration of PartialCache.tla (complete state graph on small constants) for the per-signer bound and no-cross-eviction, "
          "TLC simulation walks at the real constant replayed on the real partialCache, and TLC trace validation of every recorded call with the "
          "monitors evaluated on the observed state. Callback half (SyncServe.tla): Mon_PutNeverWaitsOnConsumer and Mon_OthersServed checked on the design (Q=2, stall faults, blocked AddCallback, bolt "
          "re-map) and on real code at CallbackWorkerQueue=100 through TLC walks and free-running stalled-consumer and scan-stall runs; 'blocked' is established from goroutine dumps. "
          "Hand-over half (PartialHandover.tla): the blocking send of NewValidPartial bounds the verified partials parked in front of a busy aggregator; a real handler's aggregator is gated inside "
          "its work and k valid partials are delivered through ProcessPartialBeacon: at most cap-buffered calls may return (Trace_PartialHandover).",
  "design_ref": "DESIGN.md 4 C12",
  "note": "Trusted: TLC, the projection of the Go maps to the abstract state (harness code in /verif/harness).",
  "technique": "TLA+ spec + TLC exhaustive model checking + trace validation of real-code executions",
 },
}
NOT_APPLICABLE = [{"property_id": p, "reason": "engine under construction in this session; not yet claimed"} for p in ALL if p not in CHECKS]
