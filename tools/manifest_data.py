BASELINE_OFF = ("cd /repo && GOFLAGS=-mod=mod GOPROXY=off go test -vet=off -count=1 -timeout 25m ./...")
HOOK_COMMITS = ["3eb0f143", "ec29f447"]
NOTES = ("One engine. Every check is `python3 tools/check.py <id> --tier quick|thorough`; exit 0/1/2 as in DESIGN.md 1.1. "
         "Scratch files live in /verif/.work (ignored by git).")

ALL = ["C%02d" % i for i in range(1, 21)]

CHECKS = {
 "C12": {
  "text": "Exhaustive TLC exploration of PartialCache.tla (complete state graph on small constants) for the per-signer bound and no-cross-eviction, "
          "TLC simulation walks at the real constant replayed on the real partialCache, and TLC trace validation of every recorded call with the "
          "monitors evaluated on the observed state.",
  "design_ref": "DESIGN.md 4 C12",
  "note": "Trusted: TLC, the projection of the Go maps to the abstract state (harness code in /verif/harness).",
  "technique": "TLA+ spec + TLC exhaustive model checking + trace validation of real-code executions",
 },
}
NOT_APPLICABLE = [{"property_id": p, "reason": "engine under construction in this session; not yet claimed"} for p in ALL if p not in CHECKS]
